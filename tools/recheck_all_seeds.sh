#!/bin/sh
# tools/recheck_all_seeds.sh [seed ids...]: for every kept seed, apply its patch to the scratch worktree and run the
# FIRST check listed in its meta.json "caught_by" (quick tier); prints one line per seed and a summary.
cd /verif
ids="$@"; [ -n "$ids" ] || ids=$(ls seeded)
ok=0; bad=0
for s in $ids; do
  c=$(python3 -c "import json;print((json.load(open('/verif/seeded/$s/meta.json'))['caught_by'] or ['-'])[0])")
  [ "$c" = "-" ] && { echo "$s not caught by any check (recorded as such)"; continue; }
  line=$(tools/recheck_seed.sh $s $c 2>&1 | grep "^$s")
  echo "$line"
  case "$line" in *"exit=1"*) ok=$((ok+1));; *) bad=$((bad+1)); echo "  NOT CAUGHT: $s by $c";; esac
done
echo "seeds caught: $ok, not caught: $bad"
