#!/usr/bin/env python
"""tools/trace_exec.py <replay.json> [--sf-log]: re-run one executor-harness execution and print its event log."""
import json, sys, logging
sys.path[:0] = ["/verif", "/repo"]
from checks import _exec, _recov
from mc import runner, wfkit, execkit
from mc.loop import execute

payload = json.load(open(sys.argv[1]))["replay"]
params, prefix = payload["case"], runner.unrle(payload["choices"])
if "--sf-log" in sys.argv:
    from streamflow.log_handler import logger
    logger.setLevel(logging.DEBUG)
else:
    wfkit.quiet_logging()
wfkit.patch_port_put()
_recov._ids.clear()
res = {}
ex = execute(lambda loop: _exec._main(loop, params, res), prefix, idle_only=bool(params.get("idle_only")), keep_events=True, keep_labels=True)
for e in ex.events:
    print(e)
print("HANG" if ex.hang else "", ex.error, res.get("raised"))
for p in ex.pending: print("  pending", p)
run = res.get("run")
if run: print("exec_log", run.exec_log, "\nfailures", run.failure_log, "\nlost", run.lost_jobs)
nz = [(i, c, ex.labels[i]) for i, (n, c, f) in enumerate(ex.trace) if c]
print("deviations:", nz)
