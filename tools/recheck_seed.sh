#!/bin/sh
# tools/recheck_seed.sh <seed id> <check ids...>: apply the seed's patch to the scratch worktree /tmp/wt/mine,
# run the listed checks (quick) against it, restore the worktree.  Prints "<seed> <check> exit=<n>".
sid=$1; shift
wt=${WT:-/tmp/wt/mine}
[ -d $wt ] || git -C /repo worktree add --detach $wt HEAD >/dev/null 2>&1
git -C $wt checkout -q --detach "$(git -C /repo rev-parse HEAD)"; git -C $wt checkout -- .
p=/verif/seeded/$sid/patch.diff; [ -f $p ] || p=/tmp/seeded_out/$sid/patch.diff
git -C $wt apply $p || { echo "$sid patch does not apply"; exit 2; }
for c in "$@"; do
  VERIF_REPO=$wt VERIF_NO_REPLAY_FILES=1 VERIF_EVIDENCE_DIR=/tmp/ev_$(basename $wt) /verif/check $c --tier ${TIER:-quick} > /tmp/recheck_${sid}_$c.log 2>&1
  echo "$sid $c exit=$? $(grep -c '^VIOLATION' /tmp/recheck_${sid}_$c.log) violations"
done
git -C $wt checkout -- .
