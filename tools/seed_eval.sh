#!/bin/sh
# tools/seed_eval.sh <seed-id e.g. C09-1> <tier> <check id>... : confirm a seeded defect independently and run checks
# against it, all in a FRESH scratch worktree of /repo (removed afterwards).  /repo itself is never touched.
# Reads /tmp/seeded_out/<id>/{patch.diff,demo_test.py}; writes /tmp/seeded_out/<id>/eval.log
id="$1"; tier="$2"; shift 2
out=/tmp/seeded_out/$id; wt=/tmp/wt/eval-$id
export TMPDIR=/tmp/agent_tmp/eval-$id; mkdir -p "$TMPDIR" /tmp/wt
log=$out/eval.log; : > "$log"
git -C /repo worktree remove --force "$wt" 2>/dev/null
git -C /repo worktree add -f "$wt" HEAD -q || exit 2
cd "$wt" || exit 2
if ! git apply "$out/patch.diff" 2>>"$log"; then echo "RESULT id=$id PATCH DOES NOT APPLY" | tee -a "$log"; cd /; git -C /repo worktree remove --force "$wt"; exit 1; fi
demo() { PYTHONPATH="$wt" /venv/bin/python -m pytest -q -p no:cacheprovider -x "$out/demo_test.py" >> "$log" 2>&1; }
echo "== demo WITH patch" >> "$log"; demo; with=$?
if [ -z "$SKIP_STABLE" ]; then
echo "== stable tests WITH patch" >> "$log"
PYTHONPATH="$wt" timeout -s KILL 1200 /venv/bin/python -m pytest -q -p no:cacheprovider --timeout=900 tests/test_binding_filter.py tests/test_cwl_loop.py tests/test_recovery.py tests/test_recovery_utils.py tests/test_schema.py tests/test_scheduler.py::test_hardware tests/test_connector.py::test_command_template "tests/test_translator.py::test_recursive_deployments" tests/test_translator.py::test_workdir_inheritance tests/test_translator.py::test_dot_product_transformer_raises_error 2>&1 | tail -3 >> "$log"
fi
stable=$(grep -E "[0-9]+ passed" "$log" | tail -1)
for c in "$@"; do
  echo "== check $c --tier $tier against patched worktree" >> "$log"
  o=$(cd /verif && VERIF_REPO="$wt" VERIF_NO_REPLAY_FILES=1 VERIF_EVIDENCE_DIR="$TMPDIR/evidence" ./check "$c" --tier "$tier" 2>&1); r=$?
  echo "$o" | grep -E "^VIOLATION|KNOWN-FINDING|violated|^\[$c\]|INTERNAL" | cut -c1-600 | head -12 >> "$log"
  echo "CHECK $c exit=$r violations=$(echo "$o" | grep -c '^VIOLATION')" >> "$log"
done
git apply -R "$out/patch.diff"
echo "== demo WITHOUT patch" >> "$log"; demo; without=$?
echo "RESULT id=$id demo_with_patch_exit=$with demo_without_patch_exit=$without stable='$stable' $(grep '^CHECK' "$log" | tr '\n' ' ')" >> "$log"
tail -1 "$log"
cd /; git -C /repo worktree remove --force "$wt"; rm -rf "$TMPDIR"
