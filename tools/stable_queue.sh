#!/bin/sh
# tools/stable_queue.sh <seed id>... : run the offline-stable tests WITH each seeded patch, one at a time (the suite
# hangs now and then when several copies run concurrently on a loaded machine), in scratch worktrees.
for id in "$@"; do
  out=/tmp/seeded_out/$id; wt=/tmp/wt/stable-$id
  export TMPDIR=/tmp/agent_tmp/stable-$id; mkdir -p "$TMPDIR"
  git -C /repo worktree remove --force "$wt" 2>/dev/null
  git -C /repo worktree add -f "$wt" HEAD -q || continue
  cd "$wt" || continue
  if git apply "$out/patch.diff"; then
    for attempt in 1 2 3; do
      PYTHONPATH="$wt" timeout -s KILL 900 /venv/bin/python -m pytest -q -p no:cacheprovider --timeout=600 tests/test_binding_filter.py tests/test_cwl_loop.py tests/test_recovery.py tests/test_recovery_utils.py tests/test_schema.py tests/test_scheduler.py::test_hardware tests/test_connector.py::test_command_template "tests/test_translator.py::test_recursive_deployments" tests/test_translator.py::test_workdir_inheritance tests/test_translator.py::test_dot_product_transformer_raises_error > "$out/stable.log" 2>&1
      line=$(grep -E "[0-9]+ passed" "$out/stable.log" | tail -1)
      [ -n "$line" ] && break
    done
    echo "STABLE id=$id attempt=$attempt '$line'"
  else
    echo "STABLE id=$id PATCH DOES NOT APPLY"
  fi
  cd /; git -C /repo worktree remove --force "$wt"; rm -rf "$TMPDIR"
done
