#!/bin/sh
# tools/run_all.sh [tier] : run every claimed check, print one line each
tier="${1:-quick}"; cd /verif
for id in $(python3 -c "import json;print(' '.join(c['property_id'] for c in json.load(open('MANIFEST.json'))['checks']))"); do
  s=$(date +%s); out=$(./check $id --tier $tier 2>&1); rc=$?; e=$(date +%s)
  echo "$id rc=$rc $((e-s))s $(echo "$out" | grep -c '^VIOLATION') violations $(echo "$out" | grep -c '^KNOWN-FINDING') known"
done
