#!/usr/bin/env python3
"""Print the prompt for a seeded-defect sub-agent: only the property text and a scratch worktree."""
import json, sys
pid, n = sys.argv[1], sys.argv[2]
p = next(json.loads(l) for l in open('/verif/properties.jsonl') if json.loads(l)['id'] == pid)
wt = f"/tmp/wt/{pid}-{n}"
out = f"/tmp/seeded_out/{pid}-{n}"
print(f"""You are helping to evaluate a verification effort for the open-source project alpha-unito/streamflow (a Python asyncio workflow management system). Your job: craft ONE realistic, subtle defect.

Work ONLY inside the scratch git worktree {wt} (a checkout of the project at the pinned commit). Do not read or write anything under /repo or /verif. Use /venv/bin/python (Python 3.12 with all dependencies). IMPORTANT: /venv has an editable install pointing elsewhere, so always run with the worktree first on the path, e.g. `cd {wt} && PYTHONPATH={wt} /venv/bin/python -m pytest ...` and verify once with `cd {wt} && PYTHONPATH={wt} /venv/bin/python -c "import streamflow; print(streamflow.__file__)"` that the worktree copy is imported. There is no network.

The semantic property the defect must break:

  Title: {p['title']}
  Statement: {p['statement']}
  Quantified over: {p['quantifier']['text']}
  Code it is anchored in: {', '.join(p['anchors']['files'])}
  Mechanisms meant to make it hold: {'; '.join(m['name'] + ' (' + m.get('where','') + ')' for m in p['anchors']['mechanism'])}

Task:
1. Read the relevant code and make a small source change under {wt}/streamflow/ (not tests) that BREAKS the property, while the code still imports/compiles and the project's existing stable test-suite still passes. The change must look like a plausible mistake or 'optimisation' a developer could make (e.g. an off-by-one in cursor/offset logic, a wrong ordering key, state hoisted to a shared scope, a notify/release placed on the wrong side of an await, a missing cache invalidation, a check-then-act across an await).
2. It must NOT be something ordinary use exposes at once. It should need something specific to manifest: a particular task interleaving or completion order, a fault at a particular point, a multi-step operation sequence, an unusual input (e.g. 10+ elements, nested tags, names with spaces), or two cooperating sites that each look fine alone.
3. Write a demonstration: a standalone pytest file or small script {out}/demo_test.py that FAILS with your change and PASSES on the unmodified code (check both. NEVER use `git stash` -- the stash is shared with other agents' worktrees. Toggle with: `git -C {wt} diff > {out}/patch.diff; git -C {wt} apply -R {out}/patch.diff; <run demo>; git -C {wt} apply {out}/patch.diff`). It should use only the project's public classes (fake connectors / in-memory sqlite `:memory:` database via streamflow.main.build_context are fine) and must not need docker/ssh/network. Run it like `cd {wt} && PYTHONPATH={wt} /venv/bin/python -m pytest -q -p no:cacheprovider {out}/demo_test.py`.
4. Confirm the stable tests still pass WITH your change: `cd {wt} && PYTHONPATH={wt} /venv/bin/python -m pytest -q -p no:cacheprovider --timeout=900 tests/test_binding_filter.py tests/test_cwl_loop.py tests/test_recovery.py tests/test_recovery_utils.py tests/test_schema.py tests/test_scheduler.py::test_hardware tests/test_connector.py::test_command_template "tests/test_translator.py::test_recursive_deployments" tests/test_translator.py::test_workdir_inheritance tests/test_translator.py::test_dot_product_transformer_raises_error` (takes about 2-5 minutes; under heavy machine load this run occasionally hangs forever in tests/test_recovery.py regardless of your change -- ALWAYS prefix it with `timeout -s KILL 1500` and simply run it again if it gets killed; many OTHER tests in the repo fail offline regardless because they need docker etc. -- ignore those; in tests/test_recovery.py some parametrisations named test_resume_* fail even on unmodified code -- ignore those too). Other agents run tests concurrently on this machine: ALWAYS run every python/pytest command with the environment variable TMPDIR=/tmp/agent_tmp/{pid}-{n} (create that directory first) so temporary files do not collide, and never delete anything under /tmp that is not yours.
5. Save into {out}/ : patch.diff (output of `git -C {wt} diff`), demo_test.py, and meta.json with keys: property ("{pid}"), summary (what was changed), needs (what specific schedule/fault/input/sequence is needed to manifest), demo_cmd, demo_fails_with_patch (true/false as observed), demo_passes_without_patch (true/false as observed), stable_tests_pass_with_patch (true/false as observed, with the pytest summary line).
6. Leave the worktree WITH the change applied (do not commit). Do not create other files outside {wt} and {out}.

Report back briefly: the summary, what is needed to manifest, and the observed results of steps 3 and 4. If your first idea is caught by the existing tests, try a different one.""")
