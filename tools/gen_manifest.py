#!/usr/bin/env python3
"""Regenerate /verif/MANIFEST.json from the table below (keeps it valid at all times)."""
import json
import os

ROOT = os.path.dirname(os.path.dirname(os.path.abspath(__file__)))

E1 = "deviation-bounded stateless exploration of the real asyncio code under a controlled event loop"
E2 = "explicit-state BFS over operation sequences on the real objects against a reference model"
E3 = "bounded-exhaustive enumeration of inputs/configurations on the real code against a reference"

# id -> (category, engine, technique, text, note, design_ref)
CHECKS = {
    "C01": ("model_checking", "E1", E1 + "; all arrival interleavings of element/size tokens",
            "Every arrival order (all interleavings for n<=4 and nested shapes; identity/reverse/single transpositions/"
            "rotations x size position for n in 10..15) of element and size tokens at the real GatherStep chain, each "
            "under all db-reply/driver-gate deviations up to the bound, plus scatter->jobs->gather through the real "
            "executor; oracle: exactly one ListToken with original tag and order.",
            "Environment model of DESIGN 2.1; list lengths > 15 and depth > 3 not explored.", "3/C01"),
    "C04": ("model_checking", "E1", E1 + "; fault plans enumerated",
            "Real StreamFlowExecutor on a catalogue of workflow shapes (pipelines, scatter/gather, nested scatter, dot/"
            "cartesian combinators, conditionals, job pipelines, scattered jobs, diamond, loops, compositions) x fault "
            "plans (each job x {FAILED, raise, schedule raises, transfer raises}; pairs in thorough) x every schedule "
            "within the deviation bound; oracle: no hang/livelock, run() returns/raises as required, every step "
            "terminated with a terminal status, every output port terminated, no task pending at quiescence.",
            "Leaf job behaviour and faults are harness code; workflows have <= ~25 steps; <= 2 deviations.", "3/C04"),
    "C05": ("model_checking", "E1", E1 + "; differential across schedules",
            "Same catalogue, fault-free: outputs of every explored schedule equal those of the default schedule and "
            "the value predicted by a reference function of the program.",
            "As C04.", "3/C05"),
    "C07": ("model_checking", "E1", E1 + "; oracle on the SQLite tables",
            "After every explored execution the token and provenance tables are read through raw sqlite3 and compared "
            "with a per-step-class reference of the dependee set; acyclicity and dependee<depender checked on the whole table.",
            "As C04; recovery workflows are covered by the C16 harness once built.", "3/C07"),
    "C02": ("model_checking", "E1", E1 + "; all arrival permutations; plain-python reference",
            "Real CombinatorStep with Dot/Cartesian combinators and the nestings the engine builds, over a catalogue of "
            "token streams (antichains of depth 1..3, parent/child mixes, multi-digit components, missing partners): "
            "every arrival permutation (free choices) x driver/db deviations; emitted multiset == reference.",
            "Cartesian depth 1 and same-depth inputs only; streams of <= 7 tokens; Cartesian{inner} is a known finding.", "3/C02"),
    "C03": ("model_checking", "E2", E2,
            "BFS over all put/get/late-subscribe/add_inter_port histories on the real Port, JobPort, FilterTokenPort and "
            "InterWorkflowPort (1..4 consumers, 0..4 tokens, up to 11 tokens for late subscribers, 1-2 boundary rules), "
            "each consumer's received sequence compared with the reference list after every operation.",
            "Termination put last; self-targeting rules installed before tokens (engine usage).", "3/C03"),
    "C06": ("model_checking", "E1", E1,
            "Real CWLLoopOutput{Last,All}Step under every order of iteration tokens and markers for 1..4 instances "
            "(all permutations for k<=4, transposition-bounded for k in 10..15) plus the translator's loop sub-graph "
            "under the executor (0/1/3/11 iterations, scattered instances, job bodies).",
            "Input port terminated last (translator wiring); counts above 15 not explored.", "3/C06"),
    "C14": ("exploration", "E3", E3,
            "All ordered pairs (and triples of a reduced domain) of Hardware values over a dyadic domain with aliasing "
            "storage keys, checked against the arithmetic laws the scheduler relies on.",
            "Dyadic domain; <= 3 storages.", "3/C14"),
    "C20": ("model_checking", "E2", E2 + " (closure over all reachable graphs)",
            "From the empty graph, every operation applied to the real DirectedGraph/DirectedAcyclicGraph from every "
            "reachable graph on 3-5 labelled nodes, compared with a dict-of-sets reference; 12-node shaped graphs; "
            "GraphMapper.move_token_to_root over all 4-node token DAGs.",
            "Label universe of <= 5 nodes for the closure.", "3/C20"),
    "C33": ("exploration", "E3", E3,
            "All ordered pairs of tags (depth<=3, components 0..12) for compare_tags against the numeric key; get_tag "
            "on every ordered non-empty subset of every prefix chain; job-name split/join.",
            "Tags are dot-separated decimal integers.", "3/C33"),
    "C09": ("model_checking", "E2", E2 + "; independent raw-SQL reader",
            "BFS over insert/update/read/mutate-returned-row histories (single and bulk getters) on the real SqliteDatabase; "
            "after every history every get_* is compared with raw SQL on the same connection.",
            "<= 2 rows per table, 4 table families, depth 5-8.", "3/C09"),
    "C10": ("model_checking", "E1", E1 + "; job life-cycle scripts interleaved",
            "Real DefaultScheduler over fake connectors (hardware, slots, multi-location, two targets, stacked wrappers): all "
            "interleavings of 2-3 jobs' engine-emitted life cycles x overlap deviations; after EVERY allocation the reference "
            "usage recomputed from job_allocations fits the capacity at every level.",
            "Requirements without bind mounts; <= 3 jobs.", "3/C10"),
    "C11": ("model_checking", "E1", E1 + "; job life-cycle scripts interleaved",
            "Same space as C10; reserved cores/memory/storage never negative, no notification raises, zero after all jobs are terminal "
            "(storage keeps the measured usage).",
            "As C10.", "3/C11"),
    "C12": ("model_checking", "E1", E1 + "; job life-cycle scripts interleaved",
            "Same space with retry_interval None (no timer can mask a lost wake-up): at final quiescence no schedule() request waits "
            "while a target has enough free capacity.",
            "As C10.", "3/C12"),
    "C13": ("exploration", "E3", E3,
            "Every declared order of 1..4 targets x 9 filter chains x job inputs x busy deployments on the real scheduler; "
            "allocation target == first surviving hostable target.",
            "FIFO task start (documented asyncio behaviour).", "3/C13"),
    "C21": ("model_checking", "E2", E2,
            "BFS over register/invalidate/relate/source-lookup histories on the real DefaultDataManager (two deployments + a "
            "wrapped location with a mount) against a history-derived reference; four registry defects probed separately.",
            "Alphabet restrictions r1-r3 (see check) keep the BFS off the recorded defects; <= 1 relation per history.", "3/C21"),
    "C26": ("model_checking", "E1", E1 + "; request multisets in all orders",
            "Real DefaultDeploymentManager/FutureConnector over instrumented fakes: topologies single/pair/chain/fork, lazy and "
            "eager, injected deploy failures; every multiset of 2..4 requests in all orders and overlaps; oracle replays the "
            "per-instance call log against the five clauses of the property.",
            "Fake connectors; <= 4 requests, <= 3 deployments.", "3/C26"),
    "C27": ("model_checking", "E1", E1 + "; virtual timers and TTL cache",
            "Real SlurmConnector over an in-process fake Slurm host: 1..4 concurrent run() calls (+undeploy) in every order and "
            "overlap, every command reply and job finish a gate, polling sleeps virtual timers, squeue replies possibly stale; "
            "run() returns only after its job left the queue with its own output/exit code; undeploy cancels exactly the queued jobs.",
            "Fake host answers SlurmConnector's exact command lines; TTL cache on the virtual clock.", "3/C27"),
    "C28": ("exploration", "E3", E3,
            "All sets of <= 3 step and <= 2 port bindings over the 15 paths of depth <= 3, queried for all 31 paths of depth <= 4; "
            "all 64 wraps assignments x workdir placements incl. cycles.",
            "Paths over {a,b}; 3 deployments.", "3/C28"),
    "C32": ("exploration", "E3", E3,
            "All old/new directory pairs x 10 hostile name classes x 5 value forms x nesting; round trip and containment.",
            "posixpath processor.", "3/C32"),
    "C15": ("model_checking", "E1", E1,
            "Programs with concurrently scheduled jobs under every schedule within the bound; every JobToken's three "
            "directories exist, are registered in the data manager, and are disjoint across jobs unless fixed.",
            "Local location only (shell-remote locations need real subprocesses, not available on the controlled loop).", "3/C15"),
    "C16": ("fault_enumeration", "E1", E1 + "; every single fault (job x phase x kind x count x lost data) enumerated",
            "Real StreamFlowExecutor + RollbackFailureManager on job shapes (scalar/file/list/object pipelines, scattered jobs, "
            "A->scatter B_i->gather->C, diamond, loop with a job body): EVERY single fault (job x {schedule, transfer, execute} x "
            "{soft, fail-stop} x count {1,2} x which directories are lost) [thorough: pairs of faults on different jobs] x every "
            "schedule within the deviation bound; oracle: run() returns, outputs (file contents) equal the failure-free run, all "
            "steps COMPLETED, no task pending.",
            "max_retries exceeds the failures of a plan; idle-only sub-space of schedules for most plans, full model for 1-3; "
            "<= 2 deviations.", "3/C16"),
    "C17": ("fault_enumeration", "E1", E1 + "; failure counts 1..limit+2 per (job, phase) enumerated for every retry limit",
            "Same harness: job shapes x max_retries {1,2,3,5} x every (job, phase, soft|fail-stop, count 1..limit+2), and the "
            "DummyFailureManager with one failure, under the default schedule and every schedule within the deviation bound "
            "around the limit; oracle: no command runs more than max_retries times, count >= limit => run() raises with every "
            "step terminated and nothing pending, count < limit => success, never a hang.",
            "Fail-stop faults lose only the failing job's own directories (no other job consumes retry budget).", "3/C17"),
    "C18": ("fault_enumeration", "E1", E1 + "; execution counts compared with a reference derived from the plan and the workflow graph",
            "The fault plans and schedules of C16; per execution the number of command runs of every job must be 1 + its own "
            "execute-phase failures unless its output directory was deleted by a fault AND it is an ancestor of a failed job; "
            "soft plans allow no surplus run.",
            "Ancestry from the harness' program description, not from the database; hung/raising executions are C16/C17's.", "3/C18"),
    "C19": ("fault_enumeration", "E1", E1 + "; concurrent fail-stop faults sharing a lost producer; both lock orders",
            "A->scatter(n) B_i->gather->C and diamond over files: 2..n consumers fail fail-stop in the same run after the "
            "producer's output was lost once; both lock orders of _recover; every schedule within the per-case bound; oracle: "
            "all recoveries terminate, outputs equal the failure-free run, every job runs at most 1 + own failures + losses.",
            "n <= 3 (quick) / 6 (thorough); the data is lost once (copies regenerated by a running recovery are not deleted "
            "again; that harsher scenario is in C16's 'lose' variants).", "3/C19"),
    "C08": ("exploration", "E3", E3 + "; every concrete Step class found by reflection, constructor-parameter variations, token grammar",
            "Every concrete Step subclass of streamflow.* (signature-driven factory, base + one variation per parameter, full CWLCommand "
            "and output processors on ExecuteStep) and a token-value grammar to depth 2-3: save, load with a fresh loading context, "
            "compare ALL attributes in a generic canonical form; stored row == re-saved parameters; WorkflowBuilder deep copy equal "
            "with no persistent id; two loads independent under deep mutation; whole catalogue workflows loaded, copied, re-saved.",
            "bool/int equality as in Python (SQLite stores flags as integers); back-references and runtime queues not compared.", "3/C08"),
    "C23": ("fault_enumeration", "E3", E3 + "; environment answers of the byte stream (chunk sizes, short reads, every truncation offset, checksum corruption) enumerated",
            "Real aiotarstream reader + extract_tar_stream over an in-memory stream: archives of 8-11 tree shapes written by GNU tar and "
            "Python tarfile (gnu/pax/ustar) x every chunk size of the set (thorough 1..1029) x every placement of 1-2 short reads x "
            "the stream cut after every block boundary +-1 (thorough: every byte) x every header-checksum byte flipped; the writer's "
            "archives are read back by GNU tar and tarfile; oracle: complete stream => identical tree, damaged stream => raises or "
            "identical tree, always terminates.",
            "In-memory StreamWrapper; archives <= 80 KiB; symlinks dereferenced (tar chf, as the connectors do).", "3/C23"),
    "C31": ("exploration", "E3", E3 + "; differential against node.js evaluation with a recording Proxy",
            "All expressions of a grammar (parameter references, JS $(...) over all atom pairs x operators, ${...} bodies with aliasing, "
            "shadowing, closures, computed keys, branches, loops, callbacks, comments/strings mentioning inputs; 1.2k quick / 5.4k "
            "thorough) analysed by the real resolve_dependencies and evaluated by node with inputs wrapped in a recording Proxy; "
            "oracle: node succeeds => analysis returns and recorded reads are a subset of its result.",
            "Top-level fields of inputs only; four recorded causes (computed key, var alias, inputs as argument, (inputs).a).", "3/C31"),
    "C25": ("exploration", "E3", E3 + "; differential against sh -c in a fresh process; all command sequences up to length 2-4",
            "Real LocalConnector.run and the real persistent-shell run() of a shell-based remote location: every hostile string (all "
            "strings of length <= 2 over 11 shell-relevant characters + specials) as environment value and as working directory, 10 "
            "output payloads x exit codes, every command sequence of length <= 2 (thorough 3-4) over {ok, fail, no-newline, 70 KB, "
            "stderr, timeout}; oracle: output/status as a fresh sh -c, values verbatim, each command executed exactly once.",
            "Commands are shell text by design; real-time 1 s timeouts; BaseConnector.run's inherited direct-exec path is not "
            "exercised (no shipped connector uses it).", "3/C25"),
    "C24": ("exploration", "E3", E3 + "; differential Local vs Remote StreamFlowPath on identically prepared trees",
            "21 operations x 10 (18) hostile name classes x target states {absent, file, dir, symlink, dangling} x 7 content classes "
            "x glob patterns x walk directions, each performed through LocalStreamFlowPath and through RemoteStreamFlowPath over a "
            "shell-based remote location (real persistent shell, real stream writer); oracle: same result or both raise, identical "
            "resulting trees. A disagreement that also occurs with a plain name is keyed as a semantic difference of the operation.",
            "The remote location is /bin/sh on this machine; exception classes are not compared; single operations (no sequences).",
            "3/C24"),
    "C22": ("exploration", "E3", E3 + "; every (location pair, mode, tree shape, name class, destination form)",
            "Real DefaultDataManager.transfer_data between a local location and two shell-based remote locations (real tar-stream "
            "copies, remote-path commands, same-location cp/ln): 8 location pairs x writable/read-only x 10 tree shapes x destination "
            "{absent, existing directory, renamed} x 11 name classes; oracle: destination content/structure/x-bits equal the source "
            "(links followed), no outward links in writable copies, destination registered, source untouched.",
            "Remote = /bin/sh on this machine; wrapped remote locations (containers) are not covered.", "3/C22"),
    "C29": ("exploration", "E3", E3 + "; differential against cwltool over a feature grammar (singles, ordered pairs, triples)",
            "CWL v1.2 workflows generated from 39 feature variants (tools, scatter methods and lengths 0/1/3, when, pickValue, linkMerge, "
            "valueFrom, defaults, sub-workflows, cwltool:Loop, record and File values): singles + ordered pairs (+ triples in "
            "thorough), each run by StreamFlow's cwl-runner and by cwltool; oracle: both fail or equal outputs (Files by content); a "
            "vacuity guard requires >= 80% of the programs to run on both.",
            "1-3 generated steps per workflow, far below the property's 1..6 steps with every combination; cwltool is the reference.",
            "3/C29"),
    "C30": ("exploration", "E3", E3 + "; differential against cwltool on argument vectors, environment and stdin",
            "CommandLineTools that print every argument they receive: 14 string classes x 3 binding forms, 10 input types x every "
            "combination of position / prefix / separate, itemSeparator, valueFrom, arguments entries, orderings of three inputs, "
            "ShellCommandRequirement with shellQuote, EnvVarRequirement values, stdin redirection; run by StreamFlow's cwl-runner and "
            "by cwltool; oracle: both fail or identical printed vectors.",
            "1-3 bound inputs per tool (the property speaks of 1..6); cwltool is the reference; local connector only.", "3/C30"),
    "C34": ("exploration", "E3", E3 + "; structural validation of the exported crate for every generated run",
            "Generated CWL workflows of the C29 grammar executed by `streamflow run` on a file database and exported by `streamflow "
            "prov`: readable zip, JSON-LD with unique @id, every local reference resolves, every File entity present with its "
            "recorded sha1/size, one CreateAction for the main workflow, every workflow input/output has a FormalParameter and a "
            "connected value entity whose leaves equal the run's values.",
            "Same small program grammar as C29; values compared as multisets of leaf strings; references to web resources need not resolve.",
            "3/C34"),
}

NOT_YET = "check not built yet in this session (planned, see DESIGN.md section 3); no claim is made"

# what later rounds added to a check (DESIGN 8.8-8.9); appended to the level text
ADDENDA = {
    "C01": "Flat (depth-2) gathers with a two-digit inner index under explicit arrival orders.",
    "C05": "Catalogue program `dotjob`: a scattered list dot-combined with one that arrives through 11-12 scattered jobs.",
    "C07": "Catalogue program `dotjob` as in C05.",
    "C08": "Incremental save: ports attached to already persisted steps and a new step, saved again, reloaded and deep-copied.",
    "C10": "Three-level stacked deployments (wrapper in wrapper on hosts) reserve at every level.",
    "C12": "Two deployments sharing one location (two wrappers on one host; host and wrapper), each job bound to one of them.",
    "C13": "Two-job histories: the same placement question after an earlier job of the same step with other input values went "
           "through the same filter instances; chains of two input-dependent matching filters.",
    "C15": "Bindings that fix only some of the three job directories.",
    "C18": "A second site with its own storage: read-only transfers leave related physical replicas; a producer whose every "
           "output kept a replica must not be re-executed.",
    "C19": "Consumers that fail twice (loss of the producer's current output only) under retry budgets 4 and 12; two consumers of "
           "a gathered list failing together.",
    "C21": "New paths registered beneath a related (possibly invalidated) directory.",
    "C23": "Cuts at every multiple of a small transfer buffer inside member data; a cut right after a header counts as in-data.",
    "C26": "A returning undeploy/undeploy_all request leaves nothing live that was registered when it started (unless pinned by a "
           "live, in-flight or lazily registered wrapper); thorough: every set of lazy names and every failing name.",
    "C29": "12-element scatters (two-digit scatter indices) alone and feeding every array consumer; Directory values.",
    "C30": "Two-digit and negative positions in inputs, arguments and record fields.",
    "C34": "Directory outputs (three files, one nested), single, scattered and consumed.",
}


def main():
    props = [json.loads(l)["id"] for l in open(os.path.join(ROOT, "properties.jsonl"))]
    checks = []
    for pid in props:
        if pid not in CHECKS:
            continue
        cat, eng, tech, text, note, ref = CHECKS[pid]
        if pid in ADDENDA:
            text = text + " Added later: " + ADDENDA[pid]
        checks.append({
            "property_id": pid,
            "quick_cmd": f"./check {pid} --tier quick",
            "thorough_cmd": f"./check {pid} --tier thorough",
            "evidence_file": f"/verif/evidence/{pid}.json",
            "replay_cmd_template": f"./check {pid} --replay {{path}}",
            "engine": eng,
            "level_claimed": {"category": cat, "text": text, "design_ref": ref},
            "level_note": note,
            "technique": tech,
        })
    na = []
    na_file = os.path.join(ROOT, "tools", "not_applicable.json")
    reasons = json.load(open(na_file)) if os.path.exists(na_file) else {}
    for pid in props:
        if pid not in CHECKS:
            na.append({"property_id": pid, "reason": reasons.get(pid, NOT_YET)})
    man = {
        "version": 1,
        "setup_cmd": "PYTHONPATH=/verif:/repo PYTHONHASHSEED=0 /venv/bin/python -m mc.selftest",
        "hooks": {
            "guard": "STREAMFLOW_VERIF",
            "enable": "no source hooks: checks monkey-patch from their own process (aiosqlite.connect, asyncio.wait, "
                      "uuid.uuid4, connector classes); ./check exports STREAMFLOW_VERIF=1 for uniformity",
            "baseline_off_cmd": "cd /repo && /venv/bin/python -m pytest -ra -q -p no:cacheprovider --timeout=900 "
                                "--continue-on-collection-errors",
            "source_commits": [],
            "add_only": True,
        },
        "engines": [
            {"name": "E1", "path": "/verif/mc/loop.py", "kind_free_text": E1,
             "serves_properties": [p for p in props if p in CHECKS and CHECKS[p][1] == "E1"]},
            {"name": "E2", "path": "/verif/mc/opsearch.py", "kind_free_text": E2,
             "serves_properties": [p for p in props if p in CHECKS and CHECKS[p][1] == "E2"]},
            {"name": "E3", "path": "/verif/mc/enum.py", "kind_free_text": E3,
             "serves_properties": [p for p in props if p in CHECKS and CHECKS[p][1] == "E3"]},
        ],
        "checks": checks,
        "not_applicable": na,
        "notes": "See DESIGN.md. Known findings: /verif/known_findings.json. Seeded defects: /verif/seeded/.",
    }
    with open(os.path.join(ROOT, "MANIFEST.json"), "w") as f:
        json.dump(man, f, indent=1)
    print(f"MANIFEST: {len(checks)} checks, {len(na)} not claimed")


if __name__ == "__main__":
    main()
