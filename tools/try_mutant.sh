#!/bin/sh
# tools/try_mutant.sh <patch.diff> <tier> <check id>...   -- apply a patch to /repo, run checks, always revert.
patch="$1"; tier="$2"; shift 2
cd /verif || exit 2
git -C /repo diff --quiet || { echo "/repo dirty, refusing"; exit 2; }
git -C /repo apply "$patch" || { echo "patch does not apply"; exit 2; }
trap 'git -C /repo checkout -- . ; git -C /verif checkout -- evidence 2>/dev/null' EXIT INT TERM
rc=0
for id in "$@"; do
  out=$(VERIF_NO_REPLAY_FILES=1 ./check "$id" --tier "$tier" 2>&1); r=$?
  echo "$out" | grep -E "VIOLATION|KNOWN-FINDING|violated|^\[$id\]" | cut -c1-400 | head -8
  echo "== $id exit=$r"
done
