#!/usr/bin/env python3
"""tools/keep_seed.py <seed id> <caught_by comma list or -> <missed_by_initially comma list or -> [note]
Copy a confirmed seeded defect from /tmp/seeded_out/<id>/ into /verif/seeded/<id>/ and write meta.json."""
import json, os, re, shutil, sys
sid, caught, missed = sys.argv[1], sys.argv[2], sys.argv[3]
note = sys.argv[4] if len(sys.argv) > 4 else ""
src, dst = f"/tmp/seeded_out/{sid}", f"/verif/seeded/{sid}"
os.makedirs(dst, exist_ok=True)
for f in ("patch.diff", "demo_test.py"):
    shutil.copy(os.path.join(src, f), os.path.join(dst, f))
agent = json.load(open(os.path.join(src, "meta.json")))
ev = open(os.path.join(src, "eval.log")).read() if os.path.exists(os.path.join(src, "eval.log")) else ""
res = re.findall(r"^RESULT .*$", ev, re.M)
stable_log = os.path.join(src, "stable.log")
stable_line = None
if os.path.exists(stable_log):
    m = re.findall(r"^.*\d+ passed.*$", open(stable_log).read(), re.M)
    stable_line = m[-1].strip() if m else None
meta = {
    "property": agent.get("property", sid.split("-")[0]),
    "summary": agent.get("summary"),
    "needs": agent.get("needs"),
    "origin": "written by an independent sub-agent that saw only the property text and a scratch worktree",
    "confirmed": {
        "how": "tools/seed_eval.sh in a fresh scratch worktree of /repo: demo with and without the patch, the stable tests "
               "(tests of /root/.vp/BASELINE.json that run offline) with the patch, then the listed checks with VERIF_REPO=<worktree>",
        "result_line": res[-1] if res else None,
        "stable_tests_with_patch": stable_line or "(see result_line)",
        "agent_reported_stable": agent.get("stable_tests_summary_line") or agent.get("stable_tests_pass_with_patch"),
    },
    "caught_by": [c for c in caught.split(",") if c and c != "-"],
    "missed_initially_by": [c for c in missed.split(",") if c and c != "-"],
    "note": note,
}
json.dump(meta, open(os.path.join(dst, "meta.json"), "w"), indent=1)
print("kept", dst, meta["caught_by"], meta["missed_initially_by"])
