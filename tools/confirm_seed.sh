#!/bin/sh
# tools/confirm_seed.sh <Cxx-n> : independently confirm a seeded defect from its patch.diff in a FRESH scratch
# worktree (no git stash: the stash is shared between worktrees), then remove that worktree.
id="$1"; out=/tmp/seeded_out/$id; wt=/tmp/wt/confirm-$id
export TMPDIR=/tmp/agent_tmp/confirm-$id; mkdir -p "$TMPDIR"
log=$out/confirm.log; : > "$log"
git -C /repo worktree add -f "$wt" HEAD -q || exit 2
cd "$wt" || exit 2
if ! git apply "$out/patch.diff" 2>>"$log"; then echo "RESULT id=$id PATCH DOES NOT APPLY" | tee -a "$log"; cd /; git -C /repo worktree remove --force "$wt"; exit 1; fi
run() { PYTHONPATH="$wt" /venv/bin/python -m pytest -q -p no:cacheprovider -x "$out/demo_test.py" >> "$log" 2>&1; }
echo "== demo WITH patch" >> "$log"; run; with=$?
echo "== stable tests WITH patch" >> "$log"
PYTHONPATH="$wt" /venv/bin/python -m pytest -q -p no:cacheprovider --timeout=900 tests/test_binding_filter.py tests/test_cwl_loop.py tests/test_recovery.py tests/test_recovery_utils.py tests/test_schema.py tests/test_scheduler.py::test_hardware tests/test_connector.py::test_command_template "tests/test_translator.py::test_recursive_deployments" tests/test_translator.py::test_workdir_inheritance tests/test_translator.py::test_dot_product_transformer_raises_error 2>&1 | tail -3 >> "$log"
git apply -R "$out/patch.diff"
echo "== demo WITHOUT patch" >> "$log"; run; without=$?
stable=$(grep -E "171 passed" "$log" | head -1)
echo "RESULT id=$id demo_with_patch_exit=$with demo_without_patch_exit=$without stable='$stable'" >> "$log"
tail -1 "$log"
cd /; git -C /repo worktree remove --force "$wt"; rm -rf "$TMPDIR"
