#!/bin/sh
# tools/confirm_seed.sh <Cxx-n> : independently confirm a seeded defect in its scratch worktree, then remove the worktree.
id="$1"; wt=/tmp/wt/$id; out=/tmp/seeded_out/$id
export TMPDIR=/tmp/agent_tmp/confirm-$id; mkdir -p "$TMPDIR"
log=$out/confirm.log; : > "$log"
cd "$wt" || exit 2
git -C "$wt" diff > "$out/patch.confirmed.diff"
if ! cmp -s "$out/patch.confirmed.diff" "$out/patch.diff"; then echo "NOTE: worktree diff differs from patch.diff; using worktree diff" >> "$log"; cp "$out/patch.confirmed.diff" "$out/patch.diff"; fi
run() { PYTHONPATH="$wt" /venv/bin/python -m pytest -q -p no:cacheprovider -x "$out/demo_test.py" >> "$log" 2>&1; }
echo "== demo WITH patch" >> "$log"; run; with=$?
echo "== stable tests WITH patch" >> "$log"
PYTHONPATH="$wt" /venv/bin/python -m pytest -q -p no:cacheprovider --timeout=900 tests/test_binding_filter.py tests/test_cwl_loop.py tests/test_recovery.py tests/test_recovery_utils.py tests/test_schema.py tests/test_scheduler.py::test_hardware tests/test_connector.py::test_command_template "tests/test_translator.py::test_recursive_deployments" tests/test_translator.py::test_workdir_inheritance tests/test_translator.py::test_dot_product_transformer_raises_error 2>&1 | tail -3 >> "$log"
git -C "$wt" stash -q
echo "== demo WITHOUT patch" >> "$log"; run; without=$?
git -C "$wt" stash pop -q
stable=$(grep -E "^[0-9]+ passed|passed" "$log" | grep -E "171 passed" | head -1)
echo "RESULT id=$id demo_with_patch_exit=$with demo_without_patch_exit=$without stable='$stable'" >> "$log"
tail -1 "$log"
cd /; git -C /repo worktree remove --force "$wt"; rm -rf "$TMPDIR"
