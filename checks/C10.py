"""C10 -- see checks/_sched.py (shared scheduler harness)."""
import sys

from checks import _sched

PROP = "C10"
run_case = _sched.make_run_case(PROP)


def worker_init():
    from mc import wfkit

    wfkit.quiet_logging()


def main(argv=None):
    return _sched.generic_main(PROP, sys.modules[__name__], argv, retry_delay=RETRY, rule_extra=RULE)


RETRY = 0
RULE = ("oracle: after EVERY allocation (hook on _allocate_job) and at the end, the requirements of FIREABLE/RUNNING "
        "jobs recomputed from job_allocations fit every location's capacity at every stacked level (slots: job count)")

if __name__ == "__main__":
    sys.exit(main())
