"""C08 -- saving then loading a workflow reproduces it exactly (bounded-exhaustive over entity classes,
constructor-parameter variations, token value grammar and the workflow catalogue).

Every concrete persistable class found by walking ``streamflow.*`` is instantiated by a signature-driven
factory (each constructor parameter from a small non-default domain; all single-parameter variations around the
base instance), saved, loaded through a fresh ``DefaultDatabaseLoadingContext`` and compared attribute by
attribute with a generic canonical form.  Whole workflows (the executor catalogue) are saved, loaded, deep-copied
through ``WorkflowBuilder`` and mutated to check independence of two loads."""
from __future__ import annotations

import asyncio
import enum
import importlib
import inspect
import itertools
import json
import pkgutil
import sys
import types

from mc import enumr, runner, wfkit
from mc.enumr import ChunkResult

PROP = "C08"

SKIP_ATTRS = {"workflow", "context", "persistent_id", "_saving", "queues", "token_list", "step", "_lock", "lock",
              "_workflow", "_closed"}


def worker_init():
    wfkit.quiet_logging()
    _import_all()


_imported = False


def _import_all():
    global _imported
    if _imported:
        return
    import streamflow

    for m in pkgutil.walk_packages(streamflow.__path__, "streamflow."):
        if any(x in m.name for x in (".connector", ".provenance", ".ext", ".plugins", "antlr", ".main", ".parser", "__main__")):
            continue
        try:
            importlib.import_module(m.name)
        except BaseException:  # noqa -- a module that runs a CLI on import must not kill the worker
            pass
    _imported = True


# ---------------------------------------------------------------------------------------------
# canonical form of an arbitrary entity
# ---------------------------------------------------------------------------------------------

def canon(x, top=False, seen=None):
    from streamflow.core.workflow import Port, Step, Token, Workflow

    seen = seen if seen is not None else set()
    if x is None or isinstance(x, (bool, int, float, str)):
        return x
    if isinstance(x, bytes):
        return ["bytes", x.hex()]
    if isinstance(x, enum.Enum):
        return ["enum", type(x).__name__, x.name]
    if isinstance(x, (list, tuple)):
        return [canon(v, seen=seen) for v in x]
    if isinstance(x, (set, frozenset)):
        return ["set", sorted((canon(v, seen=seen) for v in x), key=lambda v: json.dumps(v, sort_keys=True, default=str))]
    if isinstance(x, dict):
        return {str(k): canon(v, seen=seen) for k, v in x.items()}
    if isinstance(x, (asyncio.Lock, asyncio.Event, asyncio.Condition, asyncio.Queue, asyncio.Future)):
        return None
    if isinstance(x, (types.FunctionType, types.MethodType, types.BuiltinFunctionType)):
        return ["fn", getattr(x, "__qualname__", "?")]
    if not top:
        if isinstance(x, Port):
            return ["PORT", type(x).__name__, x.name]
        if isinstance(x, Step):
            return ["STEP", type(x).__name__, x.name]
        if isinstance(x, Workflow):
            return ["WORKFLOW", type(x).__name__, x.name]
    if id(x) in seen:
        return ["cycle", type(x).__name__]
    seen = seen | {id(x)}
    attrs = {}
    names = []
    for klass in type(x).__mro__:
        names.extend(getattr(klass, "__slots__", ()) if not isinstance(getattr(klass, "__slots__", ()), str) else [klass.__slots__])
    names.extend(getattr(x, "__dict__", {}).keys())
    for n in names:
        if n in SKIP_ATTRS or n.startswith("__"):
            continue
        try:
            v = getattr(x, n)
        except AttributeError:
            continue
        attrs[n] = canon(v, seen=seen)
    if isinstance(x, Token):
        return {"__class__": type(x).__name__, "tag": x.tag, "recoverable": getattr(x, "recoverable", None),
                "value": canon(x.value, seen=seen)}
    return {"__class__": type(x).__name__, **attrs}


def diff(a, b, path=""):
    """first differences between two canonical forms"""
    out = []
    if isinstance(a, (bool, int, float)) and isinstance(b, (bool, int, float)):
        # SQLite has no boolean type: a flag saved as True loads as 1.  Python treats them as equal (True == 1), so
        # does this oracle -- demanding the exact type would be more than "the same parameters".
        return [] if a == b else [f"{path}: {a!r} != {b!r}"]
    if type(a) is not type(b):
        return [f"{path}: {a!r} != {b!r}"]
    if isinstance(a, dict):
        for k in sorted(set(a) | set(b)):
            if k not in a:
                out.append(f"{path}.{k}: missing in original, loaded has {b[k]!r}")
            elif k not in b:
                out.append(f"{path}.{k}: {a[k]!r} missing after load")
            else:
                out.extend(diff(a[k], b[k], f"{path}.{k}"))
    elif isinstance(a, list):
        if len(a) != len(b):
            out.append(f"{path}: length {len(a)} != {len(b)} ({a!r} vs {b!r})")
        else:
            for i, (x, y) in enumerate(zip(a, b)):
                out.extend(diff(x, y, f"{path}[{i}]"))
    elif a != b:
        out.append(f"{path}: {a!r} != {b!r}")
    return out[:6]


# ---------------------------------------------------------------------------------------------
# signature-driven factory
# ---------------------------------------------------------------------------------------------

SCALARS = [None, True, 0, -1, 1.5, "", "a b", "ü☃", "\"'\\", "x" * 40]


class Factory:
    """Builds argument values from parameter names; ``alt`` selects the alternative value of ONE parameter."""

    def __init__(self, ctx):
        from streamflow.core.workflow import Workflow
        from streamflow.cwl.workflow import CWLWorkflow

        self.ctx = ctx
        self.wf = CWLWorkflow(context=ctx, cwl_version="v1.2", config={"k": "v"}, name="wf-c08", format_graph=None)
        self.n = 0

    def port(self, cls=None):
        from streamflow.core.workflow import Port

        self.n += 1
        return self.wf.create_port(cls=cls or Port, name=f"p{self.n}")

    def deployment(self, name="dep", alt=False):
        from streamflow.core.deployment import DeploymentConfig, WrapsConfig

        return DeploymentConfig(name=name + ("2" if alt else ""), type="local", config={"a": {"b": [1, 2]}}, external=True,
                                lazy=False, scheduling_policy=None, workdir="/wd" + ("2" if alt else ""),
                                wraps=WrapsConfig(deployment="inner", service="svc") if not alt else None)

    def target(self, alt=False):
        from streamflow.core.deployment import Target

        return Target(deployment=self.deployment(alt=alt), locations=2 if not alt else 3, service="s1" if not alt else None,
                      workdir="/t" if not alt else "/t2")

    def binding(self, alt=False):
        from streamflow.core.config import BindingConfig
        from streamflow.core.deployment import FilterConfig, LocalTarget

        return BindingConfig(targets=[self.target(), LocalTarget(workdir="/lw")] if not alt else [self.target(alt=True)],
                             filters=[FilterConfig(name="f1", type="shuffle", config={"x": [1, {"y": 2}]})] if not alt else [])

    def token_processor(self, alt=False):
        from streamflow.cwl.processor import CWLTokenProcessor
        from streamflow.cwl.utils import LoadListing, SecondaryFile

        return CWLTokenProcessor(
            name="tp", workflow=self.wf, token_type="enum" if not alt else "string", enum_symbols=["p1", "p2"],
            expression_lib=["l1", "l2"], file_format="fmt", full_js=True, load_contents=True,
            load_listing=LoadListing.shallow_listing if not alt else LoadListing.no_listing,
            only_propagate_secondary_files=False, secondary_files=[SecondaryFile(pattern=".bai", required="$(true)")],
            streamable=True)

    def combinator(self, kind="dot", alt=False):
        from streamflow.cwl.combinator import ListMergeCombinator
        from streamflow.workflow.combinator import (
            CartesianProductCombinator,
            DotProductCombinator,
            LoopCombinator,
            LoopTerminationCombinator,
        )

        if kind == "loop":
            c = LoopCombinator(name="lc", workflow=self.wf)
            c.add_item("a")
            if alt:
                c.add_item("z")
            return c
        if kind == "cart":
            c = CartesianProductCombinator(name="cc", workflow=self.wf, depth=2 if not alt else 3)
            c.add_item("a")
            c.add_item("b")
            return c
        if kind == "loopterm":
            c = LoopTerminationCombinator(name="ltc", workflow=self.wf)
            c.add_item("a")
            c.add_output_item("oa")
            if alt:
                c.add_output_item("ob")
            return c
        if kind == "listmerge":
            return ListMergeCombinator(name="lm", workflow=self.wf, input_names=["a", "b"] if not alt else ["b", "a"],
                                       output_name="o", flatten=not alt)
        c = DotProductCombinator(name="dc", workflow=self.wf)
        c.add_item("a")
        inner = CartesianProductCombinator(name="inner", workflow=self.wf, depth=1)
        inner.add_item("b")
        inner.add_item("c")
        c.add_combinator(inner, {"b", "c"})
        if alt:
            c.add_item("d")
        return c

    def value(self, cls, pname, alt=False):
        """value for parameter ``pname`` of ``cls`` (never the default)"""
        from streamflow.core.workflow import Status
        from streamflow.cwl.hardware import CWLHardwareRequirement
        from streamflow.workflow.port import ConnectorPort, JobPort

        cname = cls.__name__
        if pname == "workflow":
            return self.wf
        if pname == "name":
            return f"/{cname}" + ("-alt" if alt else "")
        if pname == "job_port":
            return self.port(JobPort)
        if pname == "connector_port":
            return self.port(ConnectorPort)
        if pname == "connector_ports":
            return {"dep": self.port(ConnectorPort)} | ({"dep2": self.port(ConnectorPort)} if alt else {})
        if pname == "primary_port":
            return "b" if alt else "a"  # a port NAME (DefaultRetagTransformer)
        if pname in ("size_port", "replicas_port", "default_port"):
            return self.port()
        if pname == "depth":
            return 3 if alt else 2
        if pname == "combinator":
            kind = "loop" if cname == "LoopCombinatorStep" else "dot"
            return self.combinator(kind, alt)
        if pname == "expression":
            return "$(inputs.b)" if alt else "$(inputs.a > 1)"
        if pname == "expression_lib":
            return ["function g(){}"] if alt else ["function f(){}", "var x=1"]
        if pname == "full_js":
            return True
        if pname == "scatter_method":
            return "flat_crossproduct" if alt else "nested_crossproduct"
        if pname == "recoverable":
            return "$(inputs.r)" if alt else True
        if pname == "binding_config":
            return self.binding(alt)
        if pname == "job_prefix":
            return "/pref2" if alt else "/pref"
        if pname == "hardware_requirement":
            return CWLHardwareRequirement(cwl_version="v1.2", cores=2 if not alt else "$(inputs.c)", memory=3, tmpdir=4,
                                          outdir=5, full_js=True, expression_lib=["e"])
        if pname in ("input_directory", "output_directory", "tmp_directory"):
            return f"/{pname}" + ("2" if alt else "")
        if pname == "prefix_path":
            return False
        if pname == "writable":
            return True
        if pname == "port_name":
            return "pn2" if alt else "pn"
        if pname == "processor":
            return self.token_processor(alt)
        if pname == "value_from":
            return "$(self + 1)" if alt else "$(self)"
        if pname == "deployment_config":
            return self.deployment(alt=alt)
        raise KeyError(f"{cname}.{pname}")


async def build_step(cls, fac: Factory, alt_param=None):
    sig = inspect.signature(cls.__init__)
    kw = {}
    for pname in sig.parameters:
        if pname == "self":
            continue
        kw[pname] = fac.value(cls, pname, alt=(pname == alt_param))
    step = cls(**kw)
    fac.wf.steps[step.name] = step
    # generic wiring: two input ports and two output ports where the class allows it
    for i, nm in enumerate(("a", "b")):
        try:
            step.add_input_port(nm, fac.port())
        except Exception:  # noqa -- single-input classes
            break
    for i, nm in enumerate(("oa", "ob")):
        try:
            step.add_output_port(nm, fac.port())
        except Exception:  # noqa
            break
    return step


def step_classes():
    from streamflow.core.workflow import Step

    _import_all()

    def subs(c):
        out = set()
        for s in c.__subclasses__():
            out.add(s)
            out |= subs(s)
        return out

    return sorted((c for c in subs(Step) if not inspect.isabstract(c) and c.__module__.startswith("streamflow.")),
                  key=lambda c: (c.__module__, c.__name__))


# ---------------------------------------------------------------------------------------------
# items
# ---------------------------------------------------------------------------------------------

def token_grammar(depth):
    """token specs: ("T", scalar, rec) | ("L", [specs]) | ("O", {k: spec}) | ("F", value) | ("J",) | ("IT",) | ("TT", status)"""
    leaves = [("T", v, r) for v in SCALARS for r in (False, True)]
    leaves += [("T", {"class": "File", "path": "/a b/ü", "nested": [1, {"k": None}]}, True), ("T", [1, [2, [3]]], False)]
    leaves += [("F", {"class": "File", "path": "/x/y z", "basename": "y z", "size": 3, "checksum": "sha1$00"}),
               ("F", {"class": "Directory", "path": "/d", "listing": [{"class": "File", "path": "/d/f"}]})]
    out = list(leaves)
    if depth >= 2:
        picks = [leaves[0], leaves[5], leaves[9], leaves[-1], leaves[-3]]
        out += [("L", [])]
        out += [("L", [a]) for a in picks] + [("L", [a, b]) for a, b in itertools.product(picks[:3], picks[2:])]
        out += [("O", {})]
        out += [("O", {"k": a}) for a in picks] + [("O", {"k 1": a, "ü": b}) for a, b in itertools.product(picks[:2], picks[3:])]
    if depth >= 3:
        mids = [("L", [leaves[3], leaves[12]]), ("O", {"x": leaves[7]}), ("L", [])]
        out += [("L", [m, leaves[1]]) for m in mids] + [("O", {"o": m, "p": leaves[2]}) for m in mids]
        out += [("L", [("L", [("L", [leaves[4]])])]), ("O", {"a": ("O", {"b": ("L", [leaves[6], leaves[-1]])})})]
    out += [("J",), ("IT",), ("TT", "COMPLETED"), ("TT", "FAILED"), ("TT", "RECOVERED")]
    return out


def make_token(spec, tag):
    from streamflow.core.workflow import Job, Status, Token
    from streamflow.cwl.token import CWLFileToken
    from streamflow.workflow.token import IterationTerminationToken, JobToken, ListToken, ObjectToken, TerminationToken

    k = spec[0]
    if k == "T":
        return Token(value=spec[1], tag=tag, recoverable=spec[2])
    if k == "F":
        return CWLFileToken(value=spec[1], tag=tag, recoverable=True)
    if k == "L":
        return ListToken(value=[make_token(s, tag) for s in spec[1]], tag=tag)
    if k == "O":
        return ObjectToken(value={n: make_token(s, tag) for n, s in spec[1].items()}, tag=tag)
    if k == "J":
        job = Job(name="/step/" + tag, workflow_id=1, inputs={"x": Token(5, tag=tag, recoverable=True), "l": ListToken([Token("a", tag=tag)], tag=tag)},
                  input_directory="/in dir", output_directory="/out", tmp_directory="/tmp/ü")
        return JobToken(value=job, tag=tag)
    if k == "IT":
        return IterationTerminationToken(tag=tag)
    return TerminationToken(value=Status[spec[1]])


async def roundtrip_token(ctx, port_id, spec, tag):
    from streamflow.persistence.loading_context import DefaultDatabaseLoadingContext

    tok = make_token(spec, tag)
    before = canon(tok, top=True)
    await tok.save(ctx.database, port_id=port_id)
    after_save = canon(tok, top=True)
    lc = DefaultDatabaseLoadingContext(ctx.database)
    loaded = await lc.load_token(tok.persistent_id)
    d = diff(before, canon(loaded, top=True))
    d2 = diff(before, after_save)
    # independence: mutate the loaded value deeply, load again through a fresh context
    _scribble(loaded.value)
    lc2 = DefaultDatabaseLoadingContext(ctx.database)
    again = await lc2.load_token(tok.persistent_id)
    d3 = diff(before, canon(again, top=True))
    return d, d2, d3


def _scribble(v, depth=0):
    """mutate every mutable container reachable from v"""
    from streamflow.core.workflow import Token

    if depth > 6:
        return
    if isinstance(v, Token):
        _scribble(v.value, depth + 1)
        try:
            v.tag = v.tag + ".666"
        except Exception:  # noqa
            pass
    elif isinstance(v, dict):
        for x in list(v.values()):
            _scribble(x, depth + 1)
        v["__scribble__"] = "X"
    elif isinstance(v, list):
        for x in v:
            _scribble(x, depth + 1)
        v.append("__scribble__")
    elif hasattr(v, "__dict__") and not isinstance(v, type):
        for x in list(vars(v).values()):
            if isinstance(x, (dict, list)):
                _scribble(x, depth + 1)


async def roundtrip_step(cls_name, alt_param):
    from streamflow.persistence.loading_context import DefaultDatabaseLoadingContext, WorkflowBuilder

    cls = next(c for c in step_classes() if c.__name__ == cls_name)
    ctx = wfkit.make_context()
    fails = []
    try:
        fac = Factory(ctx)
        step = await build_step(cls, fac, alt_param)
        if hasattr(step, "command") and cls.__name__ in ("ExecuteStep", "CWLExecuteStep"):
            _attach_command(step, fac, alt_param == "__command__")
        await fac.wf.save(ctx.database)
        before = canon(step, top=True)
        lc = DefaultDatabaseLoadingContext(ctx.database)
        loaded = await lc.load_step(step.persistent_id)
        after = canon(loaded, top=True)
        d = diff(before, after)
        if d:
            fails.append(("load", d))
        # fix-point: the loaded object saves the same parameters as the stored row
        row = await ctx.database.get_step(step.persistent_id)
        again = await loaded._save_additional_params(ctx.database)
        if json.dumps(row["params"], sort_keys=True, default=str) != json.dumps(again, sort_keys=True, default=str):
            fails.append(("fixpoint", diff(canon(row["params"]), canon(again))))
        # deep copy through the builder: same structure, no persistent identity
        wb = WorkflowBuilder(ctx.database, deep_copy=True)
        copy_wf = await wb.load_workflow(fac.wf.persistent_id)
        cstep = copy_wf.steps.get(step.name)
        if cstep is None:
            fails.append(("copy", [f"step {step.name} missing from the deep copy; has {sorted(copy_wf.steps)}"]))
        else:
            d = diff(before, canon(cstep, top=True))
            if d:
                fails.append(("copy", d))
            ids = [("workflow", copy_wf.persistent_id), ("step", cstep.persistent_id)] + [
                (f"port {p.name}", p.persistent_id) for p in copy_wf.ports.values()]
            kept = [n for n, i in ids if i is not None]
            if kept:
                fails.append(("copy-identity", [f"deep copy keeps persistent ids on: {kept}"]))
            if cstep.workflow is not copy_wf:
                fails.append(("copy-identity", ["copied step still points at the original workflow object"]))
        # independence of two loads
        lcA, lcB = DefaultDatabaseLoadingContext(ctx.database), DefaultDatabaseLoadingContext(ctx.database)
        A = await lcA.load_step(step.persistent_id)
        B = await lcB.load_step(step.persistent_id)
        for v in list(vars(A).values()):
            if isinstance(v, (dict, list)):
                _scribble(v)
            elif hasattr(v, "__dict__") and type(v).__module__.startswith("streamflow") and not _is_graph(v):
                _scribble(v)
        d = diff(before, canon(B, top=True))
        if d:
            fails.append(("independence-second-load", d))
        C = await DefaultDatabaseLoadingContext(ctx.database).load_step(step.persistent_id)
        d = diff(before, canon(C, top=True))
        if d:
            fails.append(("independence-later-load", d))
    finally:
        await ctx.close()
    return fails


def _is_graph(v):
    from streamflow.core.workflow import Port, Step, Workflow

    return isinstance(v, (Port, Step, Workflow))


def _attach_command(step, fac, alt):
    from streamflow.core.deployment import LocalTarget
    from streamflow.cwl.command import CWLCommand, CWLCommandTokenProcessor
    from streamflow.cwl.processor import CWLCommandOutputProcessor
    from streamflow.cwl.utils import LoadListing, SecondaryFile

    tp = CWLCommandTokenProcessor(name="a", expression="$(inputs.a)", processor=None, token_type="string",
                                  is_shell_command=True, item_separator="&", position=2 if not alt else 5, prefix="--t",
                                  separate=False, shell_quote=False)
    step.command = CWLCommand(
        step=step, absolute_initial_workdir_allowed=True, processors=[tp], base_command=["cmd", "tool"],
        expression_lib=["Req"], environment={"ARCH": "$(inputs.arch)", "P": "a b"}, failure_codes=[3, 4], full_js=True,
        initial_work_dir="/home" if not alt else [{"entry": "x"}], inplace_update=True, is_shell_command=True,
        success_codes=[1], step_stderr="stderr", step_stdin="stdin", step_stdout="stdout", time_limit=1000)
    for name in list(step.output_ports):
        step.output_processors[name] = CWLCommandOutputProcessor(
            name=name, workflow=step.workflow, target=LocalTarget(workdir="/home"), token_type=["string"], enum_symbols=["t"],
            expression_lib=["mylib"], file_format="file", full_js=True, glob="*.png", load_contents=True,
            load_listing=LoadListing.shallow_listing, optional=True, output_eval="$(self[0])",
            secondary_files=[SecondaryFile(pattern=".bai", required="1 == 1")], single=True, streamable=True)


async def roundtrip_workflow(spec):
    """whole-workflow round trip on a catalogue program (built, not run)"""
    from checks import _exec
    from mc import execkit
    from streamflow.persistence.loading_context import DefaultDatabaseLoadingContext, WorkflowBuilder

    workdir = execkit.new_workdir("c08")
    ctx = wfkit.make_context(workdir)
    fails = []
    try:
        execkit.reset_run()
        wb = execkit.WB(ctx, workdir)
        _exec.build(wb, spec)
        wf = await wb.finish()
        before = canon_workflow(wf)
        loaded = await DefaultDatabaseLoadingContext(ctx.database).load_workflow(wf.persistent_id)
        d = diff(before, canon_workflow(loaded))
        if d:
            fails.append(("workflow-load", d))
        b = WorkflowBuilder(ctx.database, deep_copy=True)
        cp = await b.load_workflow(wf.persistent_id)
        d = diff(before, canon_workflow(cp))
        if d:
            fails.append(("workflow-copy", d))
        kept = [n for n, o in [("workflow", cp)] + [(f"step {s}", o) for s, o in cp.steps.items()] + [(f"port {p}", o) for p, o in cp.ports.items()]
                if o.persistent_id is not None]
        if kept:
            fails.append(("workflow-copy-identity", [f"deep copy keeps persistent ids on {kept[:5]}"]))
        # the copy can be saved as a new workflow and loads back to the same structure
        await cp.save(ctx.database)
        if cp.persistent_id == wf.persistent_id:
            fails.append(("workflow-copy-identity", ["saved copy reuses the original workflow id"]))
        l2 = await DefaultDatabaseLoadingContext(ctx.database).load_workflow(cp.persistent_id)
        d = diff(before, canon_workflow(l2))
        if d:
            fails.append(("workflow-copy-save-load", d))
        # incremental save: the persisted workflow grows -- new ports attached to steps that already have a persistent id,
        # a new step wired to them -- and is saved again; the reloaded graph must have the new wiring too
        grown = []
        for i, (sname, step) in enumerate(sorted(wf.steps.items())):
            if hasattr(step, "output_processors"):
                continue  # a new output of an ExecuteStep also changes its stored parameters, which save() writes only once
            try:
                po = wf.create_port(name=f"grown-out-{i}")
                step.add_output_port(f"grown_out_{i}", po)
                pi = wf.create_port(name=f"grown-in-{i}")
                step.add_input_port(f"grown_in_{i}", pi)
                grown.append(sname)
            except Exception:  # noqa -- classes with a fixed port layout refuse extra ports
                continue
            if len(grown) >= 4:
                break
        if grown:
            extra = wf.create_step(cls=wfkit.PyTransformer, name="/grown-step", func="id")
            extra.add_input_port("x", wf.ports["grown-out-0"] if "grown-out-0" in wf.ports else wf.create_port(name="grown-x"))
            extra.add_output_port("x", wf.create_port(name="grown-y"))
            await wf.save(ctx.database)
            after = canon_workflow(wf)
            l3 = await DefaultDatabaseLoadingContext(ctx.database).load_workflow(wf.persistent_id)
            d = diff(after, canon_workflow(l3))
            if d:
                fails.append(("workflow-incremental-save", d))
            cp3 = await WorkflowBuilder(ctx.database, deep_copy=True).load_workflow(wf.persistent_id)
            d = diff(after, canon_workflow(cp3))
            if d:
                fails.append(("workflow-incremental-save-copy", d))
        # input tokens
        for p, tok in wb.inputs:
            t2 = await DefaultDatabaseLoadingContext(ctx.database).load_token(tok.persistent_id)
            d = diff(canon(tok, top=True), canon(t2, top=True))
            if d:
                fails.append(("input-token", d))
    finally:
        await ctx.close()
        import shutil

        shutil.rmtree(workdir, ignore_errors=True)
    return fails


def canon_workflow(wf):
    return {"class": type(wf).__name__, "name": wf.name, "config": canon(wf.config),
            "output_ports": canon(wf.output_ports),
            "steps": {n: canon(s, top=True) for n, s in sorted(wf.steps.items())},
            "ports": {n: canon(p, top=True) for n, p in sorted(wf.ports.items())}}


# ---------------------------------------------------------------------------------------------
# chunks
# ---------------------------------------------------------------------------------------------

def check_chunk(chunk):
    worker_init()
    fails, n, distinct = [], 0, set()
    loop = asyncio.new_event_loop()
    asyncio.set_event_loop(loop)
    try:
        if chunk["kind"] == "steps":
            for cls_name, alt in chunk["items"]:
                n += 1
                try:
                    res = loop.run_until_complete(roundtrip_step(cls_name, alt))
                except KeyError as e:
                    fails.append((f"C08|factory|{cls_name}", f"no factory value for constructor parameter {e} (new parameter?)",
                                  {"kind": "steps", "items": [[cls_name, alt]]}))
                    continue
                distinct.add((cls_name, alt))
                for what, d in res:
                    fails.append((f"C08|{what}|{cls_name}|{_attr_of(d)}", f"{cls_name} (varied parameter: {alt}): {d}",
                                  {"kind": "steps", "items": [[cls_name, alt]]}))
        elif chunk["kind"] == "tokens":
            async def run_tokens():
                ctx = wfkit.make_context()
                from streamflow.core.workflow import Workflow

                wf = Workflow(ctx, config={}, name="tokwf")
                port = wf.create_port(name="p")
                await wf.save(ctx.database)
                out = []
                for spec, tag in chunk["items"]:
                    out.append((spec, tag, await roundtrip_token(ctx, port.persistent_id, _unjson(spec), tag)))
                await ctx.close()
                return out

            for spec, tag, (d, d2, d3) in loop.run_until_complete(run_tokens()):
                n += 1
                distinct.add(json.dumps(spec, default=str)[:200])
                kind = _unjson(spec)[0]
                if d:
                    fails.append((f"C08|token-load|{kind}|{_attr_of(d)}", f"token {spec} tag {tag}: {d}", {"kind": "tokens", "items": [[spec, tag]]}))
                if d2:
                    fails.append((f"C08|token-save-mutates|{kind}|{_attr_of(d2)}", f"saving changed the token {spec}: {d2}", {"kind": "tokens", "items": [[spec, tag]]}))
                if d3:
                    fails.append((f"C08|token-independence|{kind}|{_attr_of(d3)}", f"mutating a loaded token changed a later load of {spec}: {d3}",
                                  {"kind": "tokens", "items": [[spec, tag]]}))
        else:
            for spec in chunk["items"]:
                n += 1
                distinct.add(json.dumps(spec, sort_keys=True))
                for what, d in loop.run_until_complete(roundtrip_workflow(spec)):
                    fails.append((f"C08|{what}|prog={spec['prog']}|{_attr_of(d)}", f"program {spec}: {d}", {"kind": "workflows", "items": [spec]}))
    finally:
        loop.close()
    dedup = {}
    for k, m, p in fails:
        dedup.setdefault(k, (k, m, p))
    return ChunkResult(n, distinct, list(dedup.values()), samples=[chunk["items"][0]])


def _attr_of(d):
    first = d[0] if d else ""
    return first.split(":")[0][:60]


def _unjson(spec):
    """json turned tuples into lists: restore the spec shape"""
    if isinstance(spec, list) and spec and isinstance(spec[0], str) and spec[0] in ("T", "L", "O", "F", "J", "IT", "TT"):
        k = spec[0]
        if k == "L":
            return ("L", [_unjson(s) for s in spec[1]])
        if k == "O":
            return ("O", {n: _unjson(s) for n, s in spec[1].items()})
        return tuple(spec)
    return spec


def all_items(tier):
    from checks import _exec

    quick = tier == "quick"
    steps = []
    for cls in step_classes():
        sig = inspect.signature(cls.__init__)
        params = [p for p in sig.parameters if p not in ("self", "workflow")]
        steps.append((cls.__name__, None))
        for p in params:
            if p != "name":
                steps.append((cls.__name__, p))
        if cls.__name__ in ("ExecuteStep", "CWLExecuteStep"):
            steps.append((cls.__name__, "__command__"))
    toks = []
    for spec in token_grammar(2 if quick else 3):
        for tag in (("0", "0.10.3") if quick else ("0", "0.1", "0.10.3", "12.0.7.11")):
            toks.append((spec, tag))
    progs = _exec.catalogue("quick" if quick else "thorough") + [{"prog": "filejobs", "k": 2}, {"prog": "filescatter", "n": 2},
                                                                   {"prog": "filediamond"}, {"prog": "fixeddirs", "n": 2}]
    return steps, toks, progs


def main(argv=None):
    args = runner.tier_args(argv)
    worker_init()
    if args.replay:
        p = json.load(open(args.replay))["replay"]
        r = check_chunk(p)
        for k, m, _ in r.failures:
            print(f"VIOLATION property={PROP} replay={args.replay}\n  {k}: {m}")
        return 1 if r.failures else 0
    rep = runner.Report(PROP, args.tier, "exploration", runner.seed())
    steps, toks, progs = all_items(args.tier)
    chunks = [{"kind": "steps", "items": steps[i:i + 6]} for i in range(0, len(steps), 6)]
    chunks += [{"kind": "tokens", "items": toks[i:i + 40]} for i in range(0, len(toks), 40)]
    chunks += [{"kind": "workflows", "items": progs[i:i + 3]} for i in range(0, len(progs), 3)]
    enumr.run_enum(rep, f"checks.{PROP}", chunks, workers=args.workers)
    rep.coverage.update({"step_classes": len(step_classes()), "step_instances": len(steps), "token_values": len(toks),
                         "workflows": len(progs), "step_class_names": [c.__name__ for c in step_classes()]})
    rep.coverage["rule"] = (
        "every concrete Step subclass found by walking streamflow.* (factory driven by the constructor signature: base "
        "instance with every parameter non-default + one variation per parameter; ExecuteStep with a full CWLCommand and "
        "output processors) -> save -> load with a fresh DefaultDatabaseLoadingContext: all attributes equal (generic "
        "canonical form), _save_additional_params of the loaded object equals the stored row, WorkflowBuilder deep copy "
        "equal with no persistent id, two loads independent under deep mutation; token grammar to depth 2 (quick) / 3 "
        "(scalars incl. None/''/unicode/quotes, list/object/file/job/termination tokens, recoverable flag, 2-4 tags); "
        "whole catalogue workflows: load, deep copy, save copy, reload; distinct = distinct (class, varied parameter) / "
        "token spec / program")
    rep.assumptions = ["a constructor parameter without a factory value is reported as a factory failure (exit 1), so new "
                       "classes/parameters cannot silently escape",
                       "attributes skipped by the canonical form: workflow/context back-references, persistent_id, queues, "
                       "token_list, locks"]
    return rep.finish()


if __name__ == "__main__":
    sys.exit(main())
