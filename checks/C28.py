"""C28 -- steps get the binding of their nearest bound ancestor; workdir inheritance; cyclic wraps rejected."""
from __future__ import annotations

import itertools
import os
import posixpath
import sys
import tempfile

from mc import enumr, runner
from mc.enumr import ChunkResult

from streamflow.config.config import WorkflowConfig
from streamflow.core.exception import WorkflowDefinitionException
from streamflow.deployment.utils import get_binding_config

PROP = "C28"


def paths(maxdepth):
    out = ["/"]
    for d in range(1, maxdepth + 1):
        for c in itertools.product("ab", repeat=d):
            out.append("/" + "/".join(c))
    return out


def make_config(step_b, port_b, deployments=None):
    deps = deployments or {f"d{i}": {"type": "docker", "config": {"image": "x"}} for i in range(max(1, len(step_b)))}
    bindings = []
    for i, p in enumerate(step_b):
        bindings.append({"step": p, "target": {"deployment": f"d{i}"}})
    for p in port_b:
        bindings.append({"port": p, "target": {"deployment": "d0", "workdir": "/portdir"}})
    return {"workflows": {"w": {"type": "cwl", "config": {"file": "x.cwl"}, "bindings": bindings}},
            "deployments": {k: dict(v) for k, v in deps.items()}}


def is_prefix(p, q):
    """step path p is q or an ancestor of q"""
    if p == "/":
        return True
    return q == p or q.startswith(p + "/")


def check_bindings(step_b, port_b, universe, fails):
    n = 0
    try:
        wc = WorkflowConfig("w", make_config(step_b, port_b))
    except Exception as e:  # noqa
        fails.append(("C28|binding|construct", f"WorkflowConfig raised {type(e).__name__}: {e} for steps {step_b} ports {port_b}",
                      {"steps": step_b, "ports": port_b}))
        return 0
    for q in universe:
        n += 1
        bc = get_binding_config(q, "step", wc)
        got = [t.deployment.name for t in bc.targets]
        cands = [(len(p.rstrip("/").split("/")) if p != "/" else 0, i) for i, p in enumerate(step_b) if is_prefix(p, q)]
        want = [f"d{max(cands)[1]}"] if cands else ["__LOCAL__"]
        if got != want:
            rel = "self" if q in step_b else ("descendant" if cands else "unbound")
            fails.append((f"C28|binding|{rel}" + ("|with-port-bindings" if port_b else ""),
                          f"step {q}: got targets {got}, nearest bound ancestor says {want}; step bindings {step_b}, "
                          f"port bindings {port_b}", {"steps": step_b, "ports": port_b, "query": q}))
    return n


def wraps_case(wraps, workdirs, target_wd, fails):
    """wraps: tuple of None|index for d0..d2; workdirs: tuple of bool; target_wd: bool"""
    names = ["d0", "d1", "d2"]
    deps = {}
    for i, nme in enumerate(names):
        d = {"type": "docker", "config": {"image": "x"}}
        if wraps[i] is not None:
            d["wraps"] = names[wraps[i]] if i % 2 == 0 else {"deployment": names[wraps[i]]}
        if workdirs[i]:
            d["workdir"] = f"/wd{i}"
        deps[nme] = d
    cfg = {"workflows": {"w": {"type": "cwl", "config": {"file": "x.cwl"}, "bindings": [
        {"step": f"/s{i}", "target": dict({"deployment": names[i]}, **({"workdir": "/twd"} if target_wd else {}))}
        for i in range(3)]}}, "deployments": deps}

    def has_cycle_from(i):
        seen = {i}
        while wraps[i] is not None:
            i = wraps[i]
            if i in seen:
                return True
            seen.add(i)
        return False

    cyc = any(has_cycle_from(i) for i in range(3))
    payload = {"wraps": list(wraps), "workdirs": list(workdirs), "target_wd": target_wd}
    try:
        wc = WorkflowConfig("w", cfg)
    except WorkflowDefinitionException:
        if not cyc:
            fails.append(("C28|wraps|spurious-cycle-error", f"acyclic wraps {wraps} rejected", payload))
        return 1
    except Exception as e:  # noqa
        fails.append(("C28|wraps|exception", f"{type(e).__name__}: {e} for wraps {wraps}", payload))
        return 1
    if cyc:
        fails.append(("C28|wraps|cycle-accepted", f"cyclic wraps {wraps} accepted", payload))
        return 1
    n = 0
    for i in range(3):
        n += 1
        bc = get_binding_config(f"/s{i}/x", "step", wc)
        t = bc.targets[0]
        j, inherited = i, None
        while True:
            if workdirs[j]:
                inherited = f"/wd{j}"
                break
            if wraps[j] is None:
                break
            j = wraps[j]
        want = "/twd" if target_wd else (inherited or posixpath.join("/tmp", "streamflow"))
        if t.workdir != want:
            fails.append(("C28|workdir|" + ("target" if target_wd else ("inherited" if inherited else "default")),
                          f"deployment d{i}: target workdir {t.workdir!r}, expected {want!r} (wraps {wraps}, workdirs {workdirs})",
                          payload))
        if t.deployment.workdir != inherited:
            fails.append(("C28|workdir|deployment", f"deployment d{i} workdir {t.deployment.workdir!r} expected {inherited!r}", payload))
    return n


def check_chunk(chunk):
    fails, n, distinct = [], 0, set()
    if chunk["kind"] == "bind":
        for sb, pb in chunk["items"]:
            n += check_bindings(list(sb), list(pb), chunk["universe"], fails)
            distinct.add((sb, pb))
    else:
        for w, wd, twd in chunk["items"]:
            n += wraps_case(tuple(w), tuple(wd), twd, fails)
            distinct.add((tuple(w), tuple(wd), twd))
    dedup = {}
    for k, m, p in fails:
        dedup.setdefault(k, (k, m, p))
    return ChunkResult(n, distinct, list(dedup.values()), samples=[repr(chunk["items"][0])])


def main(argv=None):
    args = runner.tier_args(argv)
    if args.replay:
        import json

        p = json.load(open(args.replay))["replay"]
        fails = []
        if "steps" in p:
            check_bindings(p["steps"], p["ports"], paths(4), fails)
        else:
            wraps_case(tuple(p["wraps"]), tuple(p["workdirs"]), p["target_wd"], fails)
        for k, m, _ in fails:
            print(f"VIOLATION property={PROP} replay={args.replay}\n  {k}: {m}")
        return 1 if fails else 0
    rep = runner.Report(PROP, args.tier, "exploration", runner.seed())
    quick = args.tier == "quick"
    universe = paths(4)
    bp = paths(3)
    items = []
    for ns in range(0, (2 if quick else 3) + 1):
        for sb in itertools.permutations(bp, ns) if ns <= 2 else itertools.combinations(bp, ns):
            for npn in range(0, (1 if quick else 2) + 1):
                for pb in itertools.combinations(bp, npn):
                    items.append((tuple(sb), tuple(pb)))
    size = max(1, len(items) // 128)
    chunks = [{"kind": "bind", "items": items[i:i + size], "universe": universe} for i in range(0, len(items), size)]
    witems = [(w, wd, twd) for w in itertools.product([None, 0, 1, 2], repeat=3)
              for wd in itertools.product([False, True], repeat=3) for twd in (False, True)]
    chunks += [{"kind": "wraps", "items": witems[i:i + 128]} for i in range(0, len(witems), 128)]
    enumr.run_enum(rep, f"checks.{PROP}", chunks, workers=args.workers)
    rep.coverage["binding_configs"] = len(items)
    rep.coverage["wraps_configs"] = len(witems)
    rep.coverage["rule"] = (
        "every set of <= 2 (quick; ordered) / <= 3 step bindings and <= 1/2 port bindings over the 15 paths of depth "
        "<= 3 over {a,b} (root included; step and port bindings may share a path), each step binding pointing at a "
        "distinct deployment, queried for ALL 31 step paths of depth <= 4 against the longest-bound-prefix reference; "
        "all 64 wraps assignments over d0..d2 (self references and cycles included, string and mapping syntax) x 8 "
        "deployment-workdir placements x target workdir present/absent; distinct = distinct configurations")
    rep.assumptions = ["wraps always names a declared deployment", "binding paths are absolute POSIX paths"]
    return rep.finish()


if __name__ == "__main__":
    sys.exit(main())
