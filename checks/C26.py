"""C26 -- deployments follow a safe life-cycle under concurrent requests.

E1: real DefaultDeploymentManager + FutureConnector over instrumented fake connectors; every
interleaving (free choices) of a multiset of deploy / undeploy / undeploy_all / first-use requests,
overlapped in time (driver and connector gate deviations)."""
from __future__ import annotations

import asyncio
import itertools
import sys
from types import SimpleNamespace

from checks import _exec
from mc import runner, wfkit
from mc.env import fakes
from mc.env.fakes import FakeConnector, FakeWrapper
from mc.explore import Outcome
from mc.loop import execute

from streamflow.core.deployment import DeploymentConfig, ExecutionLocation, WrapsConfig
from streamflow.deployment.connector import connector_classes
from streamflow.deployment.future import FutureConnector
from streamflow.deployment.manager import DefaultDeploymentManager

PROP = "C26"
connector_classes["fake"] = FakeConnector
connector_classes["fakewrap"] = FakeWrapper


def worker_init():
    wfkit.quiet_logging()


TOPOLOGIES = {
    # name: {deployment: (type, wraps|None)}
    "single": {"A": ("fake", None)},
    "pair": {"A": ("fake", None), "B": ("fakewrap", "A")},
    "chain": {"A": ("fake", None), "B": ("fakewrap", "A"), "C": ("fakewrap", "B")},
    "fork": {"A": ("fake", None), "B": ("fakewrap", "A"), "C": ("fakewrap", "A")},
}


def dep_config(name, topo, lazy, fail):
    typ, wraps = TOPOLOGIES[topo][name]
    return DeploymentConfig(name=name, type=typ, config={"fail_deploy": name in fail}, external=False, lazy=name in lazy,
                            wraps=WrapsConfig(deployment=wraps) if wraps else None)


async def _main(loop, params, res):
    loop.mute = True
    fakes.reset_log()
    topo = params["topo"]
    lazy, fail = set(params.get("lazy", [])), set(params.get("fail", []))
    declared = {n: {"type": t, "config": {"fail_deploy": n in fail}, "lazy": n in lazy, "external": False,
                    "scheduling_policy": None, **({"wraps": w} if w else {})}
                for n, (t, w) in TOPOLOGIES[topo].items()}
    ctx = SimpleNamespace(config={"path": "/cfg/streamflow.yml", "deployments": declared})
    dm = DefaultDeploymentManager(ctx)
    requests = params["requests"]
    outcomes = [None] * len(requests)
    checks_at_return = []
    undeploy_returns = []  # (request index, {name: instance registered when the request was issued}, log length at return)
    issued_at = {}
    inflight = {}
    made = []
    loc = ExecutionLocation(name="loc0", deployment="A")

    def registered(only=None):
        snap = {}
        for n, conn in dm.deployments_map.items():
            if only is not None and n != only:
                continue
            if isinstance(conn, FutureConnector):
                conn = conn.connector
            if conn is not None and hasattr(conn, "instance_id"):
                snap[n] = conn.instance_id
        return snap

    def pins():
        """names whose deploy request is in flight right now + lazy deployments registered but not materialised yet"""
        return sorted(set(inflight.values()) | {n for n, c in dm.deployments_map.items() if isinstance(c, FutureConnector)})

    async def do(i, req):
        kind, name = req[0], (req[1] if len(req) > 1 else None)
        issued_at[i] = len(issued_at)
        try:
            if kind == "deploy":
                inflight[i] = name
                try:
                    await dm.deploy(dep_config(name, topo, lazy, fail))
                finally:
                    inflight.pop(i, None)
                conn = dm.deployments_map.get(name)
                if conn is not None and not isinstance(conn, FutureConnector):
                    if not conn.deployed and ("deploy_end", name, conn.instance_id) not in fakes.LOG:
                        checks_at_return.append(("returned-before-deployed",
                                                 f"deploy({name}) returned while the registered connector instance "
                                                 f"#{conn.instance_id} has not finished deploying"))
            elif kind == "undeploy":
                snap = registered(name)
                await dm.undeploy(name)
                undeploy_returns.append((i, snap, len(fakes.LOG), pins()))
            elif kind == "undeploy_all":
                snap = registered()
                await dm.undeploy_all()
                undeploy_returns.append((i, snap, len(fakes.LOG), pins()))
            elif kind == "use":
                conn = dm.get_connector(name)
                if conn is None:
                    outcomes[i] = ("skipped", None)
                    return
                await conn.run(ExecutionLocation(name="loc0", deployment=name), ["true"])
            outcomes[i] = ("ok", None)
        except Exception as e:  # noqa
            outcomes[i] = ("raised", f"{type(e).__name__}: {e}")

    loop.mute = False
    remaining = list(range(len(requests)))
    tasks = []
    while remaining:
        c = loop.ctl.choose(len(remaining), ("req", len(remaining)), free=True)
        i = remaining.pop(c)
        made.append(requests[i])
        tasks.append(asyncio.create_task(do(i, requests[i]), name=f"req{i}"))
        await loop.gate("driver", prio=1)
    loop.mute = True
    await loop.gate("settle", prio=9)
    res["pending_requests"] = [requests[i] for i, t in enumerate(tasks) if not t.done()]
    res["mid_log"] = list(fakes.LOG)
    res["live_before_final"] = sorted(dm.deployments_map)
    # final undeploy_all with nothing in flight
    res["final_error"] = None
    if not res["pending_requests"]:
        try:
            await dm.undeploy_all()
        except Exception as e:  # noqa
            res["final_error"] = f"{type(e).__name__}: {e}"
        await loop.gate("settle", prio=9)
    res["log"] = list(fakes.LOG)
    res["outcomes"] = outcomes
    res["made"] = made
    res["returned_checks"] = checks_at_return
    res["undeploy_returns"] = undeploy_returns
    res["issued_at"] = issued_at
    res["live_after_final"] = sorted(dm.deployments_map)
    res["wrapper_inner"] = {c.instance_id: getattr(getattr(c, "connector", None), "instance_id", None)
                            for c in FakeConnector.instances if isinstance(c, FakeWrapper)}
    for t in tasks:
        if not t.done():
            t.cancel()


def judge(params, ex, res):
    topo = params["topo"]
    base = f"C26|topo={topo}|lazy={sorted(params.get('lazy', []))}|fail={sorted(params.get('fail', []))}"
    if ex.error:
        return [(base + "|harness", f"{ex.error}")]
    if ex.hang:
        return [(base + "|hang", f"driver hangs: {ex.pending}; requests issued {res.get('made')}")]
    fails = []
    reqs = "+".join("-".join(r) for r in sorted(params["requests"]))
    log = res["log"]
    winner = res["wrapper_inner"]
    # replay the call log
    state = {}  # instance -> "deploying" | "deployed" | "undeploying" | "undeployed" | "failed"
    name_of = {}
    undeploy_count = {}
    state_at = {0: {}}
    for pos, ev in enumerate(log):
        state_at[pos + 1] = state_at[pos]
        kind = ev[0]
        if kind not in ("deploy_start", "deploy_end", "deploy_raise", "undeploy_start", "undeploy_end", "run"):
            continue
        name, inst = ev[1], ev[-1]
        name_of[inst] = name
        if kind == "deploy_start":
            others = [i for i, s in state.items() if name_of[i] == name and s in ("deploying", "deployed")]
            if others:
                fails.append((f"{base}|double-deploy|{reqs}", f"deploy_start of {name}#{inst} while instance(s) {others} "
                                                             f"of the same deployment are live; log {log[:pos + 1]}"))
            state[inst] = "deploying"
        elif kind == "deploy_end":
            state[inst] = "deployed"
        elif kind == "deploy_raise":
            state[inst] = "failed"
        elif kind == "undeploy_start":
            undeploy_count[inst] = undeploy_count.get(inst, 0) + 1
            if undeploy_count[inst] > 1:
                fails.append((f"{base}|undeployed-twice|{reqs}", f"{name}#{inst} undeployed twice; log {log[:pos + 1]}"))
            if state.get(inst) != "deployed":
                fails.append((f"{base}|undeploy-not-deployed|{reqs}", f"undeploy_start of {name}#{inst} in state {state.get(inst)}; log {log[:pos + 1]}"))
            wrappers = [w for w, inner in winner.items() if inner == inst and state.get(w) in ("deploying", "deployed")]
            if wrappers:
                # recorded cause: the live wrapper instance is a RE-deployment that started after an earlier instance
                # of the same wrapper began undeploying (deploy racing with undeploy of the same name)
                def redeploy(w):
                    wname = name_of[w]
                    start = next(p for p, e in enumerate(log) if e[0] == "deploy_start" and e[-1] == w)
                    return any(e[0] == "undeploy_start" and e[1] == wname and e[-1] != w for e in log[:start])
                if all(redeploy(w) for w in wrappers):
                    key = f"C26|inner-undeployed-first|cause=redeploy-of-wrapper-racing-with-its-undeploy|topo={topo}"
                else:
                    key = f"{base}|inner-undeployed-first|{reqs}"
                fails.append((key, f"{name}#{inst} undeployed while wrapper instance(s) {wrappers} are live; requests {res['made']}; log {log[:pos + 1]}"))
            state[inst] = "undeploying"
        elif kind == "undeploy_end":
            state[inst] = "undeployed"
        elif kind == "run":
            if state.get(inst) != "deployed":
                fails.append((f"{base}|use-before-deployed|{reqs}", f"operation reached {name}#{inst} in state {state.get(inst)}; log {log[:pos + 1]}"))
        state_at[pos + 1] = dict(state)
    # an undeploy / undeploy_all request that returns normally leaves nothing it covered deployed: every connector
    # registered when the request started (deployed or still deploying) is no longer live at the return, unless a
    # deployment wrapping it is live at that moment or a deploy request started after this one
    issued = res.get("issued_at", {})
    def wraps_transitively(w, x):
        while w:
            w = TOPOLOGIES[topo][w][1]
            if w == x:
                return True
        return False

    for i, snap, at, pinned_by in res.get("undeploy_returns", []):
        later_deploy = any(r[0] in ("deploy", "use") and issued.get(j, 1 << 30) > issued[i]
                           for j, r in enumerate(params["requests"]))
        if later_deploy:
            continue
        st = state_at[at]
        for name, inst in snap.items():
            if st.get(inst) not in ("deploying", "deployed"):
                continue
            # (a wrapper that another request is still undeploying counts: that request undeploys the inner one next)
            if any(inner == inst and st.get(w) in ("deploying", "deployed", "undeploying") for w, inner in winner.items()):
                continue
            if any(TOPOLOGIES[topo][n][1] == name and s in ("deploying", "deployed", "undeploying")
                   for j, s in st.items() for n in [name_of[j]]):
                continue
            # (so does a wrapper whose deploy request is in flight at that moment -- it registered its dependency on the
            #  inner deployment before the undeploy looked -- and a lazy wrapper that is registered but not materialised)
            if any(wraps_transitively(w, name) for w in pinned_by):
                continue
            failing = set(params.get("fail", []))
            if failing and any(wraps_transitively(w, name) for w in failing):
                # recorded cause: the deployment of a wrapper FAILS while the undeploy waits for it; the inner deployment
                # loses its last dependent without being undeployed and stays live until the next undeploy_all
                fails.append((f"C26|undeploy-returned-leaving-live|cause=wrapper-deployment-fails-while-undeploy-waits|topo={topo}",
                              f"request {params['requests'][i]} returned normally while {name}#{inst} is still {st.get(inst)} "
                              f"and nothing wrapping it is live; requests {res['made']}; outcomes {res['outcomes']}; log {log[:at]}"))
                continue
            fails.append((f"{base}|undeploy-returned-leaving-live|{reqs}",
                          f"request {params['requests'][i]} returned normally while {name}#{inst}, registered when it "
                          f"started, is still {st.get(inst)} and nothing wrapping it is live; requests {res['made']}; "
                          f"log {log[:at]}"))
    for kind, msg in res["returned_checks"]:
        fails.append((f"{base}|{kind}|{reqs}", msg + f"; requests in issue order {res['made']}; log {res['mid_log']}"))
    if res["pending_requests"]:
        fails.append((f"{base}|request-hangs|{reqs}", f"requests {res['pending_requests']} never complete; issued {res['made']}; log {log}"))
    else:
        if res["final_error"]:
            fails.append((f"{base}|undeploy_all-raises|{reqs}", f"{res['final_error']}; log {log}"))
        left = [f"{name_of[i]}#{i}" for i, s in state.items() if s in ("deployed", "deploying", "undeploying")]
        # recorded cause: an undeploy/undeploy_all REQUEST that overlapped in-flight deployments died with KeyError
        # (two undeploys of one name race), leaving stale dependents behind
        keyerr = any(o and o[0] == "raised" and o[1].startswith("KeyError") and r[0] in ("undeploy", "undeploy_all")
                     for r, o in zip(params["requests"], res["outcomes"]))
        kk = (f"C26|not-undeployed|cause=overlapping-undeploy-raised-KeyError|topo={topo}" if keyerr
              else f"{base}|not-undeployed|{reqs}")
        if left:
            fails.append((kk, f"after undeploy_all() with nothing in flight, instances {left} are still live; issued "
                              f"{res['made']}; outcomes {res['outcomes']}; log {log}"))
        elif res["live_after_final"]:
            fails.append((kk.replace("not-undeployed", "registry-not-empty"), f"deployments_map still holds {res['live_after_final']} after undeploy_all"))
    # injected failure: every request for that name (or depending on it) raises
    failing = set(params.get("fail", []))
    if failing:
        def depends(n):
            seen = set()
            while n:
                if n in failing:
                    return True
                seen.add(n)
                n = TOPOLOGIES[topo][n][1]
            return False
        for r, o in zip(params["requests"], res["outcomes"]):
            if r[0] == "deploy" and r[1] in failing and r[1] not in params.get("lazy", []) and o and o[0] == "ok":
                # legal only if an earlier failure was already cleaned up and this is a fresh attempt that... cannot succeed
                fails.append((f"{base}|failed-deploy-reported-ok|{reqs}", f"{r} returned normally although deployment {r[1]} (or one it wraps) fails to deploy; outcomes {res['outcomes']}; log {log}"))
    return fails[:3]


def run_case(params, prefix):
    res = {}
    ex = execute(lambda loop: _main(loop, params, res), prefix, idle_only=bool(params.get("idle_only")))
    fails = judge(params, ex, res)
    obs = (tuple(map(str, res.get("outcomes", []))), tuple(e[:2] for e in res.get("log", [])))
    return Outcome(ex.trace, fails, obs=hash(obs), steps=ex.steps, states=ex.states, signature=ex.signature)


def cases_for(tier):
    quick = tier == "quick"
    out = []

    def add(topo, requests, lazy=(), fail=(), bound=None, idle=None):
        c = {"topo": topo, "requests": [list(r) for r in requests], "lazy": list(lazy), "fail": list(fail)}
        c["bound"] = bound if bound is not None else (1 if quick else 3)
        out.append(c)
        if idle:
            out.append(dict(c, idle_only=True, bound=idle))

    D, U, UA, USE = "deploy", "undeploy", "undeploy_all", "use"
    alph = {
        "single": [(D, "A"), (U, "A"), (UA,)],
        "pair": [(D, "A"), (D, "B"), (U, "A"), (U, "B"), (UA,)],
        "chain": [(D, "B"), (D, "C"), (U, "A"), (U, "C"), (UA,)],
        "fork": [(D, "B"), (D, "C"), (U, "B"), (UA,)],
    }
    for topo, al in alph.items():
        for k in (2, 3):
            for combo in itertools.combinations_with_replacement(al, k):
                if not any(r[0] == D for r in combo):
                    continue
                if topo in ("chain", "fork") and k == 3 and quick:
                    continue
                add(topo, combo, idle=2 if quick else 3)
        if not quick:
            for combo in itertools.combinations_with_replacement(al, 4):
                if sum(1 for r in combo if r[0] == D) >= 2:
                    add(topo, combo, bound=1, idle=2)
        # systematic lazy / failing variants (thorough): every non-empty set of lazy names, every single failing name
        if not quick and topo in ("single", "pair", "chain"):
            names = sorted(TOPOLOGIES[topo])
            for k in (2, 3):
                for lz in itertools.chain.from_iterable(itertools.combinations(names, n) for n in range(1, len(names) + 1)):
                    al2 = al + [(USE, n) for n in lz]
                    for combo in itertools.combinations_with_replacement(al2, k):
                        if any(r[0] == D for r in combo) and any(r[0] == USE for r in combo):
                            add(topo, combo, lazy=lz, bound=1 if k == 3 else 2, idle=2)
                for fl in names:
                    for combo in itertools.combinations_with_replacement(al, k):
                        if sum(1 for r in combo if r[0] == D) >= 1 and (k == 2 or topo != "chain"):
                            add(topo, combo, fail=[fl], bound=1 if k == 3 else 2, idle=2)
    # lazy deployments: first use through the FutureConnector
    for reqs in [[(D, "A"), (USE, "A")], [(D, "A"), (USE, "A"), (USE, "A")], [(D, "A"), (USE, "A"), (UA,)],
                 [(D, "A"), (D, "A"), (USE, "A")]]:
        add("single", reqs, lazy=["A"], idle=2 if quick else 3)
    add("pair", [(D, "B"), (USE, "B")], lazy=["A", "B"], idle=2)
    add("pair", [(D, "B"), (USE, "B"), (USE, "A")], lazy=["A"], idle=2)
    # injected deploy failures
    for reqs in [[(D, "A"), (D, "A")], [(D, "A"), (D, "A"), (D, "A")], [(D, "A"), (U, "A"), (D, "A")]]:
        add("single", reqs, fail=["A"], idle=2)
    add("pair", [(D, "B"), (D, "B")], fail=["A"], idle=2)
    add("pair", [(D, "B"), (D, "A")], fail=["A"], idle=2)
    add("pair", [(D, "B"), (D, "B")], fail=["B"], idle=2)
    add("pair", [(D, "B"), (UA,)], fail=["B"], idle=2)
    add("single", [(D, "A"), (USE, "A"), (USE, "A")], lazy=["A"], fail=["A"], idle=2)
    return out


def main(argv=None):
    args = runner.tier_args(argv)
    worker_init()
    if args.replay:
        return _exec.replay_main(PROP, sys.modules[__name__], args.replay)
    cases = cases_for(args.tier)
    cb = {i: c["bound"] for i, c in enumerate(cases)}
    return _exec.generic_main(
        PROP, sys.modules[__name__], "model_checking", cases, 1 if args.tier == "quick" else 2, cb,
        rule="topologies single / pair (B wraps A) / chain (C wraps B wraps A) / fork, eager and lazy deployments, injected "
             "deploy failures x every multiset of 2..3 (4 in thorough) requests from {deploy X, undeploy X, undeploy_all, "
             "first use of a lazy connector} x ALL issue orders (free choices) x overlap of requests and completion order "
             "of connector deploy/undeploy calls (deviations; deeper in the idle-only sub-space); oracle replays the "
             "per-instance call log",
        assumptions=["fake connectors record deploy/undeploy start/end per instance; the manager, FutureConnector and "
                     "wrapper resolution are the real code", "environment model of DESIGN.md 2.1"],
        args=args, time_cap=280 if args.tier == "quick" else 1500)


if __name__ == "__main__":
    sys.exit(main())
