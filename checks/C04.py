"""C04 -- every well-formed workflow terminates; failures terminate every step."""
from __future__ import annotations

import sys

from checks import _exec
from mc import runner, wfkit
from mc.explore import Outcome

from streamflow.workflow.token import TerminationToken

PROP = "C04"


def worker_init():
    wfkit.quiet_logging()
    wfkit.patch_port_put()


TERMINAL_OK = {"COMPLETED", "SKIPPED"}
TERMINAL_ANY = {"COMPLETED", "SKIPPED", "FAILED", "CANCELLED"}


def judge(params, ex, res):
    fails = []
    plan = params.get("plan") or []
    base = f"C04|{_exec.spec_key(params['spec'])}|plan={[(f['job'], f['phase'], f['kind']) for f in plan]}"
    if ex.hang:
        return [(base + "|hang", f"executor.run() never returns; pending tasks: {ex.pending}")]
    if ex.error:
        return [(base + "|error", f"{ex.error[0]}: {ex.error[1]!r}")]
    statuses = res["statuses"]
    injected = bool(res["run"].failure_log)
    if not injected:
        if res.get("raised"):
            fails.append((base + "|raised", f"fault-free run raised {res['raised']}"))
        bad = {n: s for n, s in statuses.items() if not s[1] or s[0] not in TERMINAL_OK}
        if bad:
            fails.append((base + "|status", f"steps not COMPLETED/SKIPPED+terminated after fault-free run: {bad}"))
    else:
        if not res.get("raised"):
            fails.append((base + "|noraise", f"a job failed ({res['run'].failure_log}) but run() returned {res.get('ret')}"))
        elif "WorkflowExecutionException" not in res["raised"]:
            fails.append((base + "|raisetype", f"run() raised {res['raised']}"))
        bad = {n: s for n, s in statuses.items() if not s[1] or s[0] not in TERMINAL_ANY}
        if bad:
            fails.append((base + "|status", f"steps not terminated after failed run: {bad}"))
    # every output port of every step ends with a termination token
    # every output port of every step carries a termination token (the statement does not forbid a step that was
    # terminated by executor.close() from still emitting a late data token behind it -- first version of this oracle
    # demanded "termination is the LAST token" and raised a false alarm on twobranch + failed schedule)
    noterm = [p for p, dump in res["ports"].items() if not any(t[0] == "TerminationToken" for t in dump)]
    if noterm:
        fails.append((base + "|noterm", f"output ports without any TerminationToken: {noterm}"))
    if not injected:
        late = [p for p, dump in res["ports"].items() if dump and dump[-1][0] != "TerminationToken"]
        if late:
            fails.append((base + "|data-after-termination", f"fault-free run: ports whose last token is not the termination: {late}"))
    pend = res.get("pending_after_run") or []
    if pend:
        # a step's run() (or anything it awaits) still pending at quiescence = a step left waiting
        fails.append((base + "|pending", f"tasks still pending at quiescence after run(): {pend[:6]}"))
    return fails


def run_case(params, prefix):
    ex, res = _exec.run_once(params, prefix)
    fails = judge(params, ex, res)
    obs = (str(res.get("ret")), res.get("raised") is not None, tuple(sorted((k, v[0]) for k, v in res.get("statuses", {}).items())))
    _exec.clean_res(res)
    return Outcome(ex.trace, fails, obs=hash(obs), steps=ex.steps, states=ex.states, signature=ex.signature)


def cases_for(tier):
    cases = []
    for spec in _exec.catalogue(tier):
        cases.append(_exec.case_of(spec))
        if "bound" in cases[-1]:
            continue  # the large programs run fault-free only
        jobs = _exec.program_jobs(spec)
        faults = []
        for j in jobs:
            for phase, kind in (("execute", "soft"), ("execute", "raise"), ("schedule", "soft"), ("transfer", "soft")):
                faults.append({"job": j, "phase": phase, "kind": kind, "count": 1})
        for f in faults:
            cases.append({"spec": spec, "plan": [f]})
        if tier == "thorough":
            for i in range(len(faults)):
                for j in range(i + 1, len(faults)):
                    if faults[i]["job"] != faults[j]["job"]:
                        cases.append({"spec": spec, "plan": [faults[i], faults[j]], "bound": 1})
    return cases


def main(argv=None):
    args = runner.tier_args(argv)
    worker_init()
    if args.replay:
        return _exec.replay_main(PROP, sys.modules[__name__], args.replay)
    cases = cases_for(args.tier)
    bound = 1 if args.tier == "quick" else 2
    cb = {i: c["bound"] for i, c in enumerate(cases) if "bound" in c}
    return _exec.generic_main(
        PROP, sys.modules[__name__], "model_checking", cases, bound, cb,
        rule="catalogue of workflow shapes x fault plans (none / each job x {command FAILED, command raises, schedule "
             "raises, transfer raises}; thorough: pairs) x all schedules within the deviation bound; distinct = "
             "distinct ordered event logs",
        assumptions=_exec.ENV_ASSUMPTIONS + ["DummyFailureManager (no recovery); single-target bindings"],
        args=args, time_cap=280 if args.tier == "quick" else 1500)


if __name__ == "__main__":
    sys.exit(main())
