"""C25 -- commands run exactly once with verbatim arguments, environment and output.

Real ``LocalConnector.run`` and the real ``BaseConnector.run`` (persistent shell, direct-exec fallback) of a
shell-based remote location, compared with ``subprocess.run(["sh", "-c", cmd], env=..., cwd=...)``."""
from __future__ import annotations

import asyncio
import itertools
import json
import os
import shutil
import subprocess
import sys

from mc import enumr, runner, wfkit
from mc.enumr import ChunkResult
from mc.env.shellremote import ShellRemoteConnector

from streamflow.core.deployment import ExecutionLocation
from streamflow.deployment.connector.local import LocalConnector

PROP = "C25"

ALPHA = ["a", " ", '"', "'", "$", "`", "\\", "\n", "ü", ";", "*"]
SPECIAL = ["$HOME", "$(id)", "a;b", "`id`", "a b c", "-n", "", "a&&b", "~", "#x", "%s", "${V}", "a\tb", "é€", "a=b"]


def hostile(tier):
    out = list(ALPHA) + SPECIAL
    if tier != "quick":
        out += ["".join(p) for p in itertools.product(ALPHA, repeat=2)]
    else:
        out += ["".join(p) for p in itertools.product(ALPHA[:7], repeat=2)][::2]
    seen, u = set(), []
    for s in out:
        if s not in seen:
            seen.add(s)
            u.append(s)
    return u


def worker_init():
    wfkit.quiet_logging()


def cls_of(s):
    """class of a hostile string (for finding keys)"""
    c = []
    if '"' in s:
        c.append("dquote")
    if "$" in s:
        c.append("dollar")
    if "`" in s:
        c.append("backtick")
    if "\\" in s:
        c.append("backslash")
    if "'" in s:
        c.append("squote")
    if "\n" in s:
        c.append("newline")
    if " " in s or "\t" in s:
        c.append("space")
    if any(x in s for x in ";&*~#"):
        c.append("meta")
    if s == "":
        c.append("empty")
    return "+".join(c) or "plain"


def connector(kind, scratch):
    if kind == "local":
        return LocalConnector("loc", scratch), ExecutionLocation(name="__LOCAL__", deployment="loc", local=True), None
    c = ShellRemoteConnector("rem", scratch)
    return c, ExecutionLocation(name="sh0", deployment="rem", local=False), ("job-1" if kind == "remote-direct" else None)


def reference(cmd, env=None, cwd=None):
    e = dict(os.environ)
    e.update(env or {})
    p = subprocess.run(["sh", "-c", cmd], env=e, cwd=cwd, stdout=subprocess.PIPE, stderr=subprocess.STDOUT)
    return p.stdout, p.returncode


def norm(b):
    """both paths document that surrounding whitespace is stripped"""
    return b.decode("utf-8", errors="replace").strip() if isinstance(b, bytes) else (b or "").strip()


async def run(conn, loc, job, cmd, env=None, cwd=None, timeout=None):
    try:
        r = await conn.run(loc, cmd, environment=env, workdir=cwd, capture_output=True, timeout=timeout, job_name=job)
        return ("ok", r[0], r[1])
    except Exception as e:  # noqa
        return ("raised", type(e).__name__, str(e)[:120])


async def check_item(item, scratch):
    kind = item["kind"]
    conn, loc, job = connector(item["conn"], scratch)
    fails = []
    try:
        if kind == "env":
            v = item["value"]
            cmd = ["printf", "'[%s]'", '"$V"']
            got = await run(conn, loc, job, cmd, env={"V": v})
            want_out, want_rc = reference("printf '[%s]' \"$V\"", env={"V": v})
            if got[0] != "ok" or got[1] != norm(want_out) or got[2] != want_rc:
                c = cls_of(v)
                if item["conn"] == "local" and any(x in c for x in ("dquote", "dollar", "backtick", "backslash")):
                    c = "cause=value-inside-double-quotes"  # recorded finding: export K="V" (create_command)
                fails.append((f"C25|env-value|{item['conn']}|{c}",
                              f"environment value {v!r} on {item['conn']}: command saw {got}, a fresh process sees {norm(want_out)!r}"))
        elif kind == "cwd":
            name = item["value"]
            d = os.path.join(scratch, "cwd", "d-" + name.replace("/", "_").replace("\0", "")) if name else os.path.join(scratch, "cwd", "d-")
            os.makedirs(d, exist_ok=True)
            got = await run(conn, loc, job, ["pwd", "-P"], cwd=d)
            want = os.path.realpath(d)
            if got[0] != "ok" or got[1] != want.strip() or got[2] != 0:
                fails.append((f"C25|workdir|{item['conn']}|{cls_of(name)}",
                              f"working directory {d!r} on {item['conn']}: command saw {got}, expected {want!r}"))
        elif kind == "output":
            path = os.path.join(scratch, "payload-" + item["payload"])
            data = PAYLOADS[item["payload"]]
            with open(path, "wb") as f:
                f.write(data)
            rc = item["rc"]
            cmd = ["cat", path, ";", "exit", str(rc)] if item["conn"] != "remote-shell" else ["sh", "-c", f"'cat {path}; exit {rc}'"]
            got = await run(conn, loc, job, cmd)
            want = (norm(data), rc)
            if got[0] != "ok" or (got[1], got[2]) != want:
                shown = got if got[0] != "ok" else (got[0], f"{len(got[1])} chars, sha {hash(got[1]) & 0xffff:x}", got[2])
                fails.append((f"C25|output|{item['conn']}|{item['payload']}|rc={'zero' if rc == 0 else 'nonzero'}",
                              f"payload {item['payload']} ({len(data)} bytes) exit {rc} on {item['conn']}: got {shown}, expected "
                              f"{len(want[0])} chars and status {rc}"))
        elif kind == "seq":
            counter = os.path.join(scratch, "counter")
            if os.path.exists(counter):
                os.unlink(counter)
            expected_lines = []
            for i, step in enumerate(item["steps"]):
                mark = f"m{i}"
                body = {"ok": f"echo {mark}-out", "fail": f"echo {mark}-out; exit 3", "nonl": f"printf {mark}-out",
                        "big": f"head -c 70000 /dev/zero | tr \"\\000\" x; echo {mark}-out", "timeout": f"sleep 1.4; echo {mark}-out",
                        "stderr": f"echo {mark}-out 1>&2"}[step]
                script = f"echo {mark} >> {counter}; {body}"
                cmd = ["sh", "-c", "'" + script + "'"]
                to = 1 if step == "timeout" else 20
                got = await run(conn, loc, job, cmd, timeout=to)
                expected_lines.append(mark)
                want_rc = 3 if step == "fail" else 0
                want_tail = f"{mark}-out"
                if step == "timeout":
                    # a timed-out command may be reported as an error; what must not happen is a second execution or a
                    # wrong result reported as success
                    if got[0] == "ok" and not (got[1].endswith(want_tail) and got[2] == 0):
                        fails.append((f"C25|sequence|{item['conn']}|timeout-returns-wrong-result",
                                      f"sequence {item['steps']}: timed-out command #{i} returned {str(got)[:160]}"))
                else:
                    ok = got[0] == "ok" and got[2] == want_rc and (
                        got[1] == want_tail if step != "big" else (got[1].endswith(want_tail) and len(got[1]) == 70000 + len(want_tail)))
                    if not ok:
                        after_to = "timeout" in item["steps"][:i]
                        key = (f"C25|sequence|{item['conn']}|cause=stale-output-after-timeout" if after_to and item["conn"] == "remote-shell"
                               and got[0] == "ok" and "SF_CMD_END_" in got[1] else
                               f"C25|sequence|{item['conn']}|after-{'timeout' if after_to else 'other'}|{step}-wrong")
                        fails.append((key,
                                      f"sequence {item['steps']}: command #{i} ({step}) returned {str(got)[:200]}, expected "
                                      f"output ending {want_tail!r} status {want_rc}"))
            # timed-out commands keep running in the background: wait (bounded) until each has left its mark, then a
            # little longer so that a second execution would show up as well -- robust against a loaded machine
            def _lines():
                return open(counter).read().split() if os.path.exists(counter) else []

            if "timeout" in item["steps"]:
                for _ in range(150):
                    if all(m in _lines() for m in expected_lines):
                        break
                    await asyncio.sleep(0.1)
                await asyncio.sleep(1.6)
            lines = _lines()
            for m in set(expected_lines):
                n = lines.count(m)
                if n != 1:
                    st = item["steps"][int(m[1:])]
                    key = (f"C25|sequence|{item['conn']}|cause=timed-out-command-executed-again-by-fallback"
                           if st == "timeout" and n == 2 and item["conn"] == "remote-shell" else
                           f"C25|sequence|{item['conn']}|executed-{n}-times|{st}")
                    fails.append((key,
                                  f"sequence {item['steps']}: command {m} ({st}) ran {n} times (counter file {lines})"))
    finally:
        try:
            await conn.undeploy(False)
        except Exception:  # noqa
            pass
    return fails




# ---------------------------------------------------------------------------------------------
# every way the shell's output stream can be split into read chunks (controlled transport)
# ---------------------------------------------------------------------------------------------

_RESPONSES: dict = {}


class _Hang(Exception):
    """the reader asks for more bytes although the whole response was delivered: in reality it would wait forever"""


class FrameShell:
    """Factory of a real ``BaseShell`` subclass whose transport is controlled: the command text written by
    ``BaseShell.execute`` is run by /bin/sh, and its output is handed to the reader cut at the chosen offsets."""

    @staticmethod
    def make(buffer_size, cuts):
        from streamflow.core.data import StreamWrapper
        from streamflow.deployment.shell import BaseShell

        state = {"pending": b"", "pos": 0, "cuts": sorted(cuts), "response_len": 0}

        class Writer(StreamWrapper):
            async def close(self):
                pass

            async def read(self, size=None):
                raise NotImplementedError

            async def write(self, data):
                # the end marker is made deterministic for these runs (see check_frames), so the response of a given
                # command text is computed by /bin/sh once and replayed for every cut plan
                if data not in _RESPONSES:
                    _RESPONSES[data] = subprocess.run(["sh"], input=data, stdout=subprocess.PIPE, stderr=subprocess.STDOUT).stdout
                state["pending"] = _RESPONSES[data]
                state["pos"] = 0
                state["response_len"] = len(state["pending"])

        class Reader(StreamWrapper):
            async def close(self):
                pass

            async def write(self, data):
                raise NotImplementedError

            async def read(self, size=None):
                if state["pos"] >= len(state["pending"]):
                    raise _Hang()
                end = min(len(state["pending"]), state["pos"] + (size or len(state["pending"])))
                for c in state["cuts"]:
                    if state["pos"] < c < end:
                        end = c
                        break
                buf = state["pending"][state["pos"]:end]
                state["pos"] = end
                return buf

        class Shell(BaseShell):
            async def _close(self):
                pass

        sh = Shell(command=["sh"], buffer_size=buffer_size)
        sh._reader, sh._writer = Reader(None), Writer(None)
        return sh, state


FRAME_OUTPUTS = {
    "empty": "", "short": "ok", "line": "hello world\n", "two-lines": "l1\nl2\n", "marker-like": "SF_CMD_END_x:0\nreal\n",
    "utf8": "ü☃€\n", "len63": "x" * 63, "len64": "x" * 64, "len65": "x" * 65, "len130": "y" * 130,
}


async def check_frames(item):
    """all single (and, for short responses, double) cut positions of the response x buffer sizes"""
    fails = []
    text = FRAME_OUTPUTS[item["payload"]]
    rc = item["rc"]
    script = ["printf", "'%s'", "'" + text.replace("\n", "'\"\n\"'") + "'", ";", "exit", str(rc)] if False else None
    path = item["_file"]
    cmd = ["cat", path, ";", "(exit " + str(rc) + ")"]
    expected = (text.encode().decode("utf-8", errors="replace").strip(), rc)
    n = 0
    import streamflow.deployment.shell as _shmod

    saved = _shmod.random_name
    _shmod.random_name = lambda: "0f0f0f0f-fixed-marker-for-replay"
    try:
        return await _frames_body(item, cmd, expected)
    finally:
        _shmod.random_name = saved


async def _frames_body(item, cmd, expected):
    fails, n = [], 0
    for bufsize in item["bufsizes"]:
        # learn the response length with an uncut run
        sh, st = FrameShell.make(bufsize, [])
        base = await sh.execute(cmd, capture_output=True)
        total = st["response_len"]
        plans = [[c] for c in range(1, total)]
        if item.get("double") and total <= 90:
            plans += [[a, b] for a in range(max(1, total - 60), total) for b in range(a + 1, total)]
        for cuts in [[]] + plans:
            n += 1
            sh, st = FrameShell.make(bufsize, cuts)
            try:
                got = await sh.execute(cmd, capture_output=True)
            except _Hang:
                got = ("hang",)
            except Exception as e:  # noqa
                got = ("raised", type(e).__name__, str(e)[:80])
            if got != expected:
                where = "in-marker-line" if cuts and max(cuts) > total - 60 else "in-output"
                fails.append((f"C25|frames|{where}|{'hang' if got == ('hang',) else 'wrong-result'}",
                              f"persistent shell, buffer {bufsize}, output {item['payload']!r} (response of {total} bytes) delivered "
                              f"cut at {cuts}: execute() -> {str(got)[:120]}, expected {expected}"))
                break
        if not capture_ok(base, expected):
            fails.append(("C25|frames|uncut|wrong-result", f"uncut response: {base} != {expected}"))
    return fails, n


def capture_ok(got, expected):
    return got == expected


PAYLOADS = {
    "empty": b"", "no-trailing-newline": b"abc", "trailing-newlines": b"abc\n\n\n", "inner-spaces": b"  a  b  \n",
    "64k": b"0123456789abcdef" * 4096, "1m": bytes(range(32, 127)) * 11038, "invalid-utf8": b"ok\xff\xfe\xc3(end\n",
    "marker-text": b"line1\nSF_CMD_END_fake:0\nline3\n", "crlf": b"a\r\nb\r\n", "unicode": "ü☃€\n".encode(),
}


def check_chunk(chunk):
    worker_init()
    scratch = os.path.join(runner.scratch_dir(), f"c25-{os.getpid()}")
    os.makedirs(scratch, exist_ok=True)
    loop = asyncio.new_event_loop()
    asyncio.set_event_loop(loop)
    fails, n, distinct = {}, 0, set()
    try:
        for item in chunk["items"]:
            n += 1
            if item["kind"] == "frames":
                path = os.path.join(scratch, f"frame-payload-{item['payload']}")
                with open(path, "w") as f:
                    f.write(FRAME_OUTPUTS[item["payload"]].encode().decode("unicode_escape").encode("latin-1").decode("utf-8")
                            if "\\" in FRAME_OUTPUTS[item["payload"]] else FRAME_OUTPUTS[item["payload"]])
                res, cnt = loop.run_until_complete(check_frames(dict(item, _file=path)))
                n += cnt - 1
                distinct.add(("frames", item["payload"], item["rc"], tuple(item["bufsizes"]), bool(res)))
                for k, m in res:
                    fails.setdefault(k, (k, m, {"items": [item]}))
                continue
            res = loop.run_until_complete(check_item(item, scratch))
            distinct.add((item["kind"], item["conn"], cls_of(item.get("value", "")) if "value" in item else
                          str(item.get("payload") or item.get("steps")), bool(res)))
            for k, m in res:
                fails.setdefault(k, (k, m, {"items": [item]}))
    finally:
        loop.close()
        shutil.rmtree(scratch, ignore_errors=True)
    return ChunkResult(n, distinct, list(fails.values()), samples=[chunk["items"][0]])


def all_items(tier):
    quick = tier == "quick"
    items = []
    # (BaseConnector.run's direct-exec path -- job_name given -- is not exercised: every shipped connector overrides run(),
    # and the inherited fallback exec's the command line without a shell, which no real deployment reaches)
    conns = ["local", "remote-shell"]
    for c in conns:
        for v in hostile(tier):
            items.append({"kind": "env", "conn": c, "value": v})
            if "\0" not in v and "/" not in v and v not in (".", ".."):
                items.append({"kind": "cwd", "conn": c, "value": v})
        for p in PAYLOADS:
            for rc in ([0, 1, 255] if quick else [0, 1, 2, 127, 255]):
                if quick and p == "1m" and rc != 0:
                    continue
                items.append({"kind": "output", "conn": c, "payload": p, "rc": rc})
    for pl in FRAME_OUTPUTS:
        for rc in (0, 7, 255) if not quick else (0, 255):
            items.append({"kind": "frames", "conn": "frame-shell", "payload": pl, "rc": rc,
                          "bufsizes": [16, 64, 128, 65536] if not quick else [64, 65536], "double": not quick or pl in ("short", "empty")})
    steps = ["ok", "fail", "nonl", "big", "stderr", "timeout"]
    seqs = [list(s) for k in (1, 2) for s in itertools.product(steps, repeat=k)]
    if quick:
        seqs += [["timeout", "ok", "ok"], ["ok", "timeout", "fail"], ["big", "timeout", "nonl"], ["fail", "fail", "ok"]]
    else:
        seqs += [list(s) for s in itertools.product(steps, repeat=3)]
        seqs += [list(s) for s in itertools.product(["ok", "timeout", "nonl"], repeat=4)]
    for s in seqs:
        items.append({"kind": "seq", "conn": "remote-shell", "steps": s})
        if len(s) <= 2:
            items.append({"kind": "seq", "conn": "local", "steps": s})
    return items


def main(argv=None):
    args = runner.tier_args(argv)
    worker_init()
    if args.replay:
        p = json.load(open(args.replay))["replay"]
        r = check_chunk(p)
        for k, m, _ in r.failures:
            print(f"VIOLATION property={PROP} replay={args.replay}\n  {k}: {m}")
        return 1 if r.failures else 0
    rep = runner.Report(PROP, args.tier, "exploration", runner.seed())
    items = all_items(args.tier)
    # timeouts take real time: spread the sequence items over the chunks
    items.sort(key=lambda it: (it["kind"] != "seq", str(it)))
    nchunks = 64
    chunks = [{"items": items[i::nchunks]} for i in range(nchunks) if items[i::nchunks]]
    enumr.run_enum(rep, f"checks.{PROP}", chunks, workers=args.workers)
    rep.coverage.update({"items": len(items), "hostile_strings": len(hostile(args.tier)), "payloads": len(PAYLOADS)})
    rep.coverage["rule"] = (
        "connectors {LocalConnector, shell-based remote through the persistent shell, the same through the direct path "
        "(job_name given)} x every hostile string (all strings of length <= 2 over {a, space, \", ', $, `, \\, newline, ü, ;, *} + "
        "$HOME, $(id), a;b ...) as environment value and as working directory x 10 output payloads (empty .. 1 MiB, invalid "
        "UTF-8, text containing the end marker) x exit codes x EVERY command sequence of length <= 2 (thorough 3-4) over {ok, "
        "fail, no-newline, 70 KB, stderr, timeout}; PLUS the persistent shell's reader (real BaseShell.execute) over a controlled "
        "transport: 10 outputs x exit codes x buffer sizes with the response cut at EVERY byte offset (and every pair of offsets "
        "near the end marker); oracle: output/status equal sh -c in a fresh process (modulo the documented "
        "strip), value of $V and pwd verbatim, each command's counter line written exactly once; distinct = (kind, connector, "
        "string class | payload | sequence, outcome)")
    rep.assumptions = ["the command itself is shell text by design (connectors join the argument list with spaces); only "
                       "environment values and the working directory must be immune to interpretation",
                       "timeouts use real time (1 s limit against a 1.4 s command)"]
    return rep.finish()


if __name__ == "__main__":
    sys.exit(main())
