"""Shared recovery harness (C16-C19): executor harness + RollbackFailureManager + enumerated fault plans."""
from __future__ import annotations

import builtins
import sys

from checks import _exec
from mc import execkit, runner, wfkit
from mc.explore import Outcome

import streamflow.recovery.failure_manager as fmod


def worker_init():
    wfkit.quiet_logging()
    wfkit.patch_port_put()


# sorted(retry_requests, key=id) in RollbackFailureManager._recover: object addresses are not owned by the
# controller, so the module-global name ``id`` is shadowed by a creation-order counter (either direction).
_ids = {}
_order = [1]


def _vid(obj):
    k = builtins.id(obj)
    if k not in _ids:
        _ids[k] = len(_ids) + 1
    return _ids[k] * _order[0]


fmod.id = _vid


def FM(max_retries):
    return {"type": "default", "config": {"max_retries": max_retries, "retry_delay": 0}}


# job -> direct producers (jobs whose outputs it consumes), per program
def deps(spec):
    k = spec["prog"]
    if k in ("jobs", "filejobs"):
        pre = "/j" if k == "jobs" else "/f"
        return {f"{pre}{i}/0": ([f"{pre}{i - 1}/0"] if i else []) for i in range(spec["k"])}
    if k == "scatterjobs":
        return {f"/sj/0.{i}": [] for i in range(spec["n"])}
    if k == "filescatter":
        d = {"/A/0": []}
        for i in range(spec["n"]):
            d[f"/B/0.{i}"] = ["/A/0"]
        d["/C/0"] = [f"/B/0.{i}" for i in range(spec["n"])]
        return d
    if k == "filescatter2c":
        d = {"/A/0": []}
        for i in range(spec["n"]):
            d[f"/B/0.{i}"] = ["/A/0"]
        d["/C1/0"] = [f"/B/0.{i}" for i in range(spec["n"])]
        d["/C2/0"] = [f"/B/0.{i}" for i in range(spec["n"])]
        if spec.get("e"):
            d["/E/0"] = ["/A/0"]
        return d
    if k == "filefan":
        d = {"/A/0": []}
        for i in range(spec["k"]):
            d[f"/B{i}/0"] = ["/A/0"]
        d["/D/0"] = [f"/B{i}/0" for i in range(spec["k"])]
        return d
    if k in ("twojobs", "filediamond"):
        return {"/A/0": [], "/B/0": ["/A/0"], "/C/0": ["/A/0"], "/D/0": ["/B/0", "/C/0"]}
    if k in ("loopjob", "fileloop"):
        js = _exec.program_jobs(spec)
        return {j: ([js[i - 1]] if i else []) for i, j in enumerate(js)}
    if k == "seq_job_scatterjobs":
        d = {"/A/0": []}
        for i in range(spec["n"]):
            d[f"/B/0.{i}"] = ["/A/0"]
        d["/C/0"] = [f"/B/0.{i}" for i in range(spec["n"])]
        return d
    return {j: [] for j in _exec.program_jobs(spec)}


def ancestors(spec, job):
    d = deps(spec)
    out, todo = set(), list(d.get(job, []))
    while todo:
        x = todo.pop()
        if x not in out:
            out.add(x)
            todo.extend(d.get(x, []))
    return out


def shapes(tier):
    q = [
        {"prog": "jobs", "k": 2}, {"prog": "filejobs", "k": 1}, {"prog": "filejobs", "k": 2}, {"prog": "filejobs", "k": 3},
        {"prog": "filejobs", "k": 2, "kind": "list"}, {"prog": "filejobs", "k": 2, "kind": "object"},
        {"prog": "scatterjobs", "n": 3}, {"prog": "filescatter", "n": 2}, {"prog": "filediamond"},
        {"prog": "loopjob", "pred": "lt3"},
        {"prog": "filescatter2c", "n": 3, "faults_on": ["/C1/0", "/B/0.1"]},
        # two sites: /f1 (resp. /B) runs on a deployment with its own storage, so its inputs are read-only physical
        # replicas (registered as related copies) that survive the loss of the producer's directories
        {"prog": "filejobs", "k": 2, "sites": {"/f1": "site2"}},
        {"prog": "filediamond", "sites": {"/B": "site2"}, "faults_on": ["/B/0", "/C/0", "/D/0"]},
    ]
    if tier == "quick":
        return q
    return q + [{"prog": "filescatter", "n": 3}, {"prog": "filescatter2c", "n": 2}, {"prog": "filescatter2c", "n": 3}, {"prog": "filejobs", "k": 3, "kind": "list"},
                {"prog": "loopjob", "pred": "lt1"}, {"prog": "loopjob", "pred": "lt3", "method": "all"},
                {"prog": "seq_job_scatterjobs", "n": 2}, {"prog": "twojobs"}, {"prog": "scatterjobs", "n": 1}]


def single_faults(spec, tier):
    """all single faults (job, phase, kind, count, lose)"""
    out = []
    files = spec["prog"].startswith("file")
    for j in _exec.program_jobs(spec):
        if spec.get("faults_on") and j not in spec["faults_on"]:
            continue
        anc = sorted(ancestors(spec, j))
        direct = deps(spec).get(j, [])
        for phase in ("execute", "transfer", "schedule"):
            for count in (1, 2):
                if tier == "quick" and count == 2 and phase != "execute":
                    continue
                out.append({"job": j, "phase": phase, "kind": "soft", "count": count})
                loses = ["own"]
                if files and direct:
                    loses.append(list(direct))
                if files and anc and anc != list(direct):
                    loses.append(anc)
                if files:
                    # "all" = every job directory.  With several sink jobs (two consumers), the OTHER sink's directory holds
                    # a workflow output that nothing depends on: destroying it is not "loss of the failed job's data" and
                    # cannot be noticed by the engine, so it is left alone.
                    d = deps(spec)
                    sinks = [x for x in d if not any(x in v for v in d.values())]
                    loses.append("all" if len(sinks) <= 1 else [x for x in d if x not in sinks and x != j])
                for lose in loses:
                    if tier == "quick" and count == 2 and lose not in ("own",):
                        continue
                    out.append({"job": j, "phase": phase, "kind": "failstop", "count": count, "lose": lose})
    return out


def run(params, prefix):
    _ids.clear()
    _order[0] = -1 if params.get("lock_order") == "reverse" else 1
    return _exec.run_once(params, prefix)


def base_key(params):
    plan = params.get("plan") or []
    ps = ";".join(f"{f['job']}:{f['phase']}:{f['kind']}x{f.get('count', 1)}" + (f":lose={f['lose']}" if "lose" in f else "") for f in plan)
    return f"{_exec.spec_key(params['spec'])}|plan={ps}"


def sibling_failures(run_):
    """True iff one job failed in two different steps (e.g. two of its transfer steps) during this execution."""
    by_job = {}
    for job, step in run_.fail_sites:
        by_job.setdefault(job, set()).add(step)
    return any(len(v) > 1 for v in by_job.values())


def producer_failed_during_recovery(spec, run_):
    """True iff a job that is an ancestor of another failed job failed itself (e.g. its transfer found the freshly
    regenerated input deleted again) -- a failure INSIDE a recovery workflow that other recoveries depend on."""
    failed = [j for j, _, _ in run_.failure_log]
    for j in failed:
        for other in failed:
            if other != j and j in ancestors(spec, other):
                return True
    return False


def hang_key(prop, params, run_, base):
    """stable key of a hang: the two recorded causes (known_findings.json) are keyed by cause and program"""
    prog = params["spec"]["prog"]
    if run_ is not None and sibling_failures(run_):
        return f"C16|hang|cause=two-steps-of-one-job-fail-with-overlapping-recoveries|prog={prog}"
    if run_ is not None and producer_failed_during_recovery(params["spec"], run_):
        return f"C16|hang|cause=producer-fails-while-being-re-executed-for-concurrent-recoveries|prog={prog}"
    return base + "|hang"


def raised_key(params, run_, base):
    """stable key of a run() that raises although no retry budget is exhausted: the recorded cause (a producer fails
    while it is being re-executed for concurrent recoveries) is keyed by cause and program"""
    if run_ is not None and producer_failed_during_recovery(params["spec"], run_):
        return f"C16|raised|cause=producer-fails-while-being-re-executed-for-concurrent-recoveries|prog={params['spec']['prog']}"
    return base + "|raised"


def summarize(res):
    run_ = res["run"]
    counts = {}
    for j in run_.exec_log:
        counts[j] = counts.get(j, 0) + 1
    fexec = {}
    for j, phase, why in run_.failure_log:
        if phase == "execute":
            fexec[j] = fexec.get(j, 0) + 1
    return counts, fexec


def make_outcome(ex, res, fails):
    run_ = res.get("run")
    obs = (str(res.get("ret_content")), res.get("raised") is not None, tuple(run_.exec_log) if run_ else ())
    _exec.clean_res(res)
    return Outcome(ex.trace, fails[:3], obs=hash(obs), steps=ex.steps, states=ex.states, signature=ex.signature)
