"""C23 -- tar-stream copies are exact or fail, however the stream is chunked.

Real ``aiotarstream.open(mode="r")`` + ``extract_tar_stream`` reading from an in-memory stream whose ``read(n)``
answers are the environment (chunk sizes, short reads, truncation, corruption); real ``aiotarstream.open(mode="w")``
+ ``add`` writing into a buffer that GNU tar and Python's tarfile then read."""
from __future__ import annotations

import asyncio
import hashlib
import io
import json
import os
import shutil
import stat
import subprocess
import sys
import tarfile

from mc import enumr, runner, wfkit
from mc.enumr import ChunkResult

from streamflow.core.data import StreamWrapper
from streamflow.deployment import aiotarstream
from streamflow.deployment.connector.base import extract_tar_stream

PROP = "C23"
BLOCK = 512


def worker_init():
    wfkit.quiet_logging()


# ---------------------------------------------------------------------------------------------
# trees
# ---------------------------------------------------------------------------------------------

LONG = "n" * 120  # > 100 bytes: needs a GNU longname / pax header / ustar prefix


def _w(path, data, mode=0o644):
    os.makedirs(os.path.dirname(path), exist_ok=True)
    with open(path, "wb") as f:
        f.write(data)
    os.chmod(path, mode)


TREES = {
    "file": lambda r: _w(f"{r}/src", b"hello world\n"),
    "empty_file": lambda r: _w(f"{r}/src", b""),
    "block_file": lambda r: _w(f"{r}/src", b"x" * 512),
    "exec_file": lambda r: _w(f"{r}/src", b"#!/bin/sh\necho hi\n", 0o755),
    "big_file": lambda r: _w(f"{r}/src", bytes(range(256)) * 280),  # 70 KiB
    "dir2": lambda r: (_w(f"{r}/src/a.txt", b"A" * 700), _w(f"{r}/src/b.bin", bytes(range(200)))),
    "empty_dir": lambda r: os.makedirs(f"{r}/src"),
    "nested": lambda r: (_w(f"{r}/src/d1/d2/deep.txt", b"deep" * 300), _w(f"{r}/src/d1/mid.txt", b"m"),
                         _w(f"{r}/src/top.txt", b""), os.makedirs(f"{r}/src/d1/empty", exist_ok=True)),
    "longname": lambda r: (_w(f"{r}/src/{LONG}.txt", b"long name content"), _w(f"{r}/src/short", b"s" * 513)),
    "names": lambda r: (_w(f"{r}/src/a b.txt", b"space"), _w(f"{r}/src/ü☃.dat", b"uni"), _w(f"{r}/src/-dash", b"d"),
                        _w(f"{r}/src/q'\"uote", b"q")),
    # a member that needs an extended header (name > 100 bytes) FOLLOWED by ordinary short-named members, and a non-ASCII
    # name (PAX path record) in the middle: per-member extended headers must not leak into later members (seeded C23-1)
    "long_first": lambda r: (_w(f"{r}/src/{'a' * 130}.txt", b"long"), _w(f"{r}/src/b_after_long.txt", b"after"),
                             _w(f"{r}/src/z_last.txt", b"last" * 200)),
    "unicode_middle": lambda r: (_w(f"{r}/src/a.txt", b"a"), _w(f"{r}/src/m_ü☃.txt", b"uni"), _w(f"{r}/src/z.txt", b"z")),
    "three_files": lambda r: [_w(f"{r}/src/f{i}", bytes([65 + i]) * (i * 511 + 1)) for i in range(3)],
}
QUICK_TREES = ["file", "empty_file", "exec_file", "dir2", "nested", "longname", "empty_dir", "block_file", "long_first",
               "unicode_middle"]
SMALL = {"long_first", "unicode_middle", "file", "empty_file", "block_file", "exec_file", "dir2", "empty_dir", "nested", "longname", "names", "three_files"}
MAKERS = ["gnutar:gnu", "gnutar:pax", "gnutar:ustar", "py:gnu", "py:pax", "py:ustar"]


def snapshot(root):
    """{relative path: ('d'|'f', mode & 0o111 != 0, sha1)}; root itself is '.'"""
    out = {}
    if os.path.isfile(root):
        st = os.stat(root)
        with open(root, "rb") as f:
            return {".": ("f", bool(st.st_mode & 0o111), hashlib.sha1(f.read()).hexdigest())}
    if not os.path.isdir(root):
        return {}
    out["."] = ("d", None, None)
    for dp, dns, fns in os.walk(root):
        for d in dns:
            out[os.path.relpath(os.path.join(dp, d), root)] = ("d", None, None)
        for fn in fns:
            p = os.path.join(dp, fn)
            st = os.lstat(p)
            if stat.S_ISLNK(st.st_mode):
                out[os.path.relpath(p, root)] = ("l", None, os.readlink(p))
            else:
                with open(p, "rb") as f:
                    out[os.path.relpath(p, root)] = ("f", bool(st.st_mode & 0o111), hashlib.sha1(f.read()).hexdigest())
    return out


_cache = {}


def archive(tree, maker, scratch):
    """(tar bytes, source snapshot) for the tree as `tar chf - -C <dir> src` would stream it"""
    key = (tree, maker)
    if key in _cache:
        return _cache[key]
    root = os.path.join(scratch, "trees", tree)
    if not os.path.exists(root):
        os.makedirs(root)
        TREES[tree](root)
    tool, fmt = maker.split(":")
    try:
        if tool == "gnutar":
            data = subprocess.run(["tar", f"--format={fmt}", "-chf", "-", "-C", root, "src"], check=True, capture_output=True).stdout
        else:
            buf = io.BytesIO()
            with tarfile.open(fileobj=buf, mode="w", format={"gnu": tarfile.GNU_FORMAT, "pax": tarfile.PAX_FORMAT,
                                                             "ustar": tarfile.USTAR_FORMAT}[fmt], dereference=True) as t:
                t.add(os.path.join(root, "src"), arcname="src")
            data = buf.getvalue()
    except (ValueError, subprocess.CalledProcessError):
        _cache[key] = None  # this format cannot store the tree (ustar and names > 100 bytes)
        return None
    _cache[key] = (data, snapshot(os.path.join(root, "src")), os.path.isdir(os.path.join(root, "src")))
    return _cache[key]


# ---------------------------------------------------------------------------------------------
# the environment: an in-memory stream
# ---------------------------------------------------------------------------------------------

class Spin(BaseException):
    """the reader keeps asking after end-of-stream: a non-terminating read loop"""


class MemReader(StreamWrapper):
    def __init__(self, data: bytes, chunk=None, short=None, truncate=None):
        super().__init__(None)
        self.data = data if truncate is None else data[:truncate]
        self.pos = 0
        self.chunk = chunk
        self.short = dict(short or {})  # read call index -> 'one' | 'half' | 'minus1'
        self.calls = 0
        self.eof_reads = 0

    async def close(self):
        pass

    async def read(self, size=None):
        i = self.calls
        self.calls += 1
        if size is None or size < 0:
            size = len(self.data) - self.pos
        n = size
        if self.chunk:
            n = min(n, self.chunk)
        how = self.short.get(i)
        if how and n > 1:
            n = {"one": 1, "half": max(1, n // 2), "minus1": n - 1}[how]
        buf = self.data[self.pos:self.pos + n]
        self.pos += len(buf)
        if not buf and size > 0:
            self.eof_reads += 1
            if self.eof_reads > 2000:
                raise Spin()
        return buf

    async def write(self, data):
        raise NotImplementedError


class MemWriter(StreamWrapper):
    def __init__(self):
        super().__init__(None)
        self.buf = bytearray()

    async def close(self):
        pass

    async def read(self, size=None):
        raise NotImplementedError

    async def write(self, data):
        self.buf += data


async def extract(data, dst, is_dir, bufsize, **env):
    """what copy_remote_to_local does, on the in-memory stream.  Returns (outcome, reader)"""
    reader = MemReader(data, **env)
    try:
        async with aiotarstream.open(stream=reader, mode="r", copybufsize=bufsize) as tar:
            await extract_tar_stream(tar, "/remote/src", dst, bufsize)
        return "ok", reader
    except Spin:
        return "spin", reader
    except tarfile.TarError as e:
        return f"raised:{type(e).__name__}", reader
    except (OSError, EOFError, ValueError, IndexError, KeyError, UnicodeError, TypeError, AttributeError) as e:
        return f"raised-other:{type(e).__name__}:{e}", reader


def fresh_dst(scratch, is_dir):
    d = os.path.join(scratch, "dst")
    shutil.rmtree(d, ignore_errors=True)
    os.makedirs(d)
    # the destination path does not exist yet (its parent does): this is how DefaultDataManager.transfer_data calls
    # copy_remote_to_local -- a source file lands AT dst, a source directory's content lands UNDER dst
    return os.path.join(d, "out")


def compare(src_snap, dst, is_dir):
    got = snapshot(dst)
    if got == src_snap:
        return None
    missing = sorted(set(src_snap) - set(got))
    extra = sorted(set(got) - set(src_snap))
    changed = sorted(k for k in set(got) & set(src_snap) if got[k] != src_snap[k])
    return f"missing {missing[:4]} extra {extra[:4]} different {changed[:4]}"


# ---------------------------------------------------------------------------------------------
# chunk checker
# ---------------------------------------------------------------------------------------------

def member_regions(data):
    """classify every block of a tar archive: (offset, kind) with kind in header|data|pad|eof"""
    regions = []
    try:
        with tarfile.open(fileobj=io.BytesIO(data), mode="r:") as t:
            members = t.getmembers()
    except tarfile.TarError:
        return regions
    for m in members:
        regions.append((m.offset, "header"))
        if m.offset_data > m.offset + BLOCK:
            regions.append((m.offset_data - BLOCK, "header-ext"))
        if m.isreg() and m.size:
            regions.append((m.offset_data, "data"))
            end = m.offset_data + m.size
            if end % BLOCK:
                regions.append((end, "pad"))
            regions.append((m.offset_data + ((m.size + BLOCK - 1) // BLOCK) * BLOCK, "next"))
    return regions


def check_chunk(chunk):
    worker_init()
    scratch = os.path.join(runner.scratch_dir(), f"c23-{os.getpid()}")
    os.makedirs(scratch, exist_ok=True)
    loop = asyncio.new_event_loop()
    asyncio.set_event_loop(loop)
    fails, n, distinct = {}, 0, set()

    def fail(key, msg, item):
        fails.setdefault(key, (key, msg, {"items": [item]}))

    try:
        for item in chunk["items"]:
            kind = item["kind"]
            if kind == "write":
                n += 1
                res = loop.run_until_complete(check_write(item, scratch))
                distinct.add(("write", item["tree"], item["bufsize"]))
                for k, m in res:
                    fail(k, m, item)
                continue
            data, snap, is_dir = archive(item["tree"], item["maker"], scratch)
            bufsize = item.get("bufsize", 65536)
            if kind == "chunk":
                for c in item["chunks"]:
                    n += 1
                    dst = fresh_dst(scratch, is_dir)
                    out, rd = loop.run_until_complete(extract(data, dst, is_dir, bufsize, chunk=c))
                    distinct.add((item["tree"], item["maker"], "chunk", c, rd.calls))
                    d = compare(snap, dst, is_dir) if out == "ok" else out
                    if d:
                        fail(f"C23|chunking|{item['maker']}|tree={item['tree']}", f"chunk size {c}, copy buffer {bufsize}: {d}",
                             dict(item, chunks=[c]))
            elif kind == "short":
                # first run: count read calls; then every (call, how) combination within the deviation bound
                dst = fresh_dst(scratch, is_dir)
                out, rd = loop.run_until_complete(extract(data, dst, is_dir, bufsize))
                calls = rd.calls
                plans = [{}]
                hows = ("one", "half", "minus1")
                singles = [{i: h} for i in range(calls + 2) for h in hows]
                plans += singles
                if item.get("bound", 1) >= 2 and calls <= 40:
                    plans += [{i: h, j: g} for i in range(calls + 2) for j in range(i + 1, calls + 3) for h in ("one", "minus1")
                              for g in ("one", "half")]
                for plan in plans:
                    n += 1
                    dst = fresh_dst(scratch, is_dir)
                    out, rd = loop.run_until_complete(extract(data, dst, is_dir, bufsize, short=plan))
                    distinct.add((item["tree"], item["maker"], "short", tuple(sorted(plan.items()))))
                    d = compare(snap, dst, is_dir) if out == "ok" else out
                    if d:
                        fail(f"C23|short-read|{item['maker']}|tree={item['tree']}", f"short reads {plan}: {d}", dict(item, plan=plan))
            elif kind == "truncate":
                regions = dict((o, k) for o, k in member_regions(data))
                for b in item["offsets"]:
                    if b >= len(data):
                        continue
                    n += 1
                    dst = fresh_dst(scratch, is_dir)
                    out, rd = loop.run_until_complete(extract(data, dst, is_dir, bufsize, truncate=b))
                    where = _where(b, data, regions)
                    distinct.add((item["tree"], item["maker"], "trunc", where, out.split(":")[0]))
                    if out == "spin":
                        fail(f"C23|truncated|{where}|never-terminates", f"{item['tree']}/{item['maker']}: stream ends after byte {b} of "
                             f"{len(data)} ({where}): the copy keeps reading an exhausted stream forever", dict(item, offsets=[b]))
                    elif out == "ok":
                        d = compare(snap, dst, is_dir)
                        if d:
                            fail(f"C23|truncated|{where}|silent-partial", f"{item['tree']}/{item['maker']}: stream ends after byte {b} of "
                                 f"{len(data)} ({where}): the copy reports success but {d}", dict(item, offsets=[b]))
                    elif out.startswith("raised-other"):
                        # failing is fine; a non-TarError escapes copy_remote_to_local's `except tarfile.TarError`, which
                        # still fails the copy -- recorded in the evidence, not a violation
                        pass
            elif kind == "corrupt":
                for off in item["offsets"]:
                    if off >= len(data):
                        continue
                    n += 1
                    bad = bytearray(data)
                    bad[off] ^= 0x55
                    dst = fresh_dst(scratch, is_dir)
                    out, rd = loop.run_until_complete(extract(bytes(bad), dst, is_dir, bufsize))
                    distinct.add((item["tree"], item["maker"], "corrupt", out.split(":")[0]))
                    if out == "spin":
                        fail("C23|corrupted|never-terminates", f"{item['tree']}/{item['maker']}: byte {off} flipped: never terminates",
                             dict(item, offsets=[off]))
                    elif out == "ok":
                        d = compare(snap, dst, is_dir)
                        if d:
                            fail(f"C23|corrupted|header-checksum|silent-partial", f"{item['tree']}/{item['maker']}: checksum byte {off} "
                                 f"flipped: the copy reports success but {d}", dict(item, offsets=[off]))
    finally:
        loop.close()
        shutil.rmtree(os.path.join(scratch, "dst"), ignore_errors=True)
    return ChunkResult(n, distinct, list(fails.values()), samples=[chunk["items"][0]])


def _where(b, data, regions):
    """class of a truncation point: the stream delivers bytes [0, b)"""
    if b == 0:
        return "empty-stream"
    if regions.get(b) == "data":
        return "in-data"  # cut right after a header whose member still owes its data: not a complete member
    starts = sorted(regions)
    cur = None
    for o in starts:
        if o < b:
            cur = o
    kind = regions.get(cur, "header")
    if kind == "data":
        # strictly inside a member's data, or exactly at its end
        nxt = min((o for o in starts if o > cur), default=len(data))
        return "in-data" if b < nxt else "between-members"
    if _all_zero(data[b:]) and kind in ("next", "pad", "header", "header-ext") and b >= max(starts, default=0) + BLOCK:
        return "in-eof-marker"
    # in a header block, an extended header, the padding after a member's data, or exactly between two members:
    # everything delivered so far consists of complete members (plus a fragment of the next header)
    return "between-members"


def _all_zero(b):
    return not any(b)


async def check_write(item, scratch):
    """aiotarstream writer -> bytes -> read back by GNU tar and python tarfile"""
    root = os.path.join(scratch, "trees", item["tree"])
    if not os.path.exists(root):
        os.makedirs(root)
        TREES[item["tree"]](root)
    src = os.path.join(root, "src")
    w = MemWriter()
    out = []
    try:
        async with aiotarstream.open(stream=w, format=tarfile.GNU_FORMAT, mode="w", dereference=True,
                                     copybufsize=item["bufsize"]) as tar:
            await tar.add(src, arcname="payload")
    except Exception as e:  # noqa
        return [(f"C23|write|raises|tree={item['tree']}", f"writing {item['tree']} raised {type(e).__name__}: {e}")]
    data = bytes(w.buf)
    snap = snapshot(src)
    for tool in ("gnutar", "py"):
        d = os.path.join(scratch, "wdst")
        shutil.rmtree(d, ignore_errors=True)
        os.makedirs(d)
        try:
            if tool == "gnutar":
                p = subprocess.run(["tar", "-xf", "-", "-C", d], input=data, capture_output=True)
                if p.returncode != 0:
                    out.append((f"C23|write|{tool}-rejects|tree={item['tree']}", f"GNU tar rejects the archive: {p.stderr[:200]!r}"))
                    continue
            else:
                with tarfile.open(fileobj=io.BytesIO(data), mode="r:") as t:
                    t.extractall(d, filter="fully_trusted")
        except Exception as e:  # noqa
            out.append((f"C23|write|{tool}-rejects|tree={item['tree']}", f"{tool} rejects the archive: {type(e).__name__}: {e}"))
            continue
        got = snapshot(os.path.join(d, "payload"))
        if got != snap:
            out.append((f"C23|write|{tool}-differs|tree={item['tree']}",
                        f"archive written by AioTarStream (bufsize {item['bufsize']}) extracted by {tool}: "
                        f"missing {sorted(set(snap) - set(got))[:3]} extra {sorted(set(got) - set(snap))[:3]} "
                        f"different {[k for k in snap if k in got and got[k] != snap[k]][:3]}"))
    if len(data) % BLOCK or not data.endswith(b"\0" * 1024):
        out.append((f"C23|write|no-eof-marker|tree={item['tree']}", f"archive length {len(data)} / missing end-of-archive marker"))
    shutil.rmtree(os.path.join(scratch, "wdst"), ignore_errors=True)
    return out


# ---------------------------------------------------------------------------------------------
# items
# ---------------------------------------------------------------------------------------------

def all_items(tier, scratch):
    quick = tier == "quick"
    trees = QUICK_TREES if quick else list(TREES)
    makers = ["gnutar:gnu", "gnutar:pax", "py:ustar", "py:gnu", "py:pax"] if quick else MAKERS
    chunks_small = [1, 2, 3, 7, 255, 256, 257, 511, 512, 513, 1023, 1024, 4096, 65536] if quick else list(range(1, 1030)) + [2047, 2048, 4095, 4096, 65536]
    items = []
    for t in trees:
        for m in makers:
            arch = archive(t, m, scratch)
            if arch is None:
                continue
            data, snap, is_dir = arch
            cs = chunks_small if t in SMALL else [1, 511, 512, 513, 4096, 65536, 100000]
            step = 64
            for i in range(0, len(cs), step):
                items.append({"kind": "chunk", "tree": t, "maker": m, "chunks": cs[i:i + step], "bufsize": 65536})
            if t == "big_file":
                # the 70 KiB file: cuts at the multiples of the transfer buffer inside its data
                for bs in (65536, 16384):
                    cuts = sorted({o + k * bs + d for o, kd in member_regions(data) if kd == "data"
                                   for k in range(0, 6) for d in (-1, 0, 1) if 0 <= o + k * bs + d < len(data)})
                    items.append({"kind": "truncate", "tree": t, "maker": m, "offsets": cuts, "bufsize": bs})
            for bs in (1, 512, 700) if t in SMALL and not quick else (700,) if t in SMALL else ():
                items.append({"kind": "chunk", "tree": t, "maker": m, "chunks": [1, 513, 65536], "bufsize": bs})
            if t in SMALL:
                items.append({"kind": "short", "tree": t, "maker": m, "bound": 1 if quick else 2, "bufsize": 65536})
                items.append({"kind": "short", "tree": t, "maker": m, "bound": 1, "bufsize": 600})
                # truncation
                if quick:
                    offs = sorted({o for b in range(0, len(data) + 1, BLOCK) for o in (b - 1, b, b + 1, b + 200) if 0 <= o < len(data)})
                else:
                    offs = list(range(0, len(data)))
                for i in range(0, len(offs), 400):
                    items.append({"kind": "truncate", "tree": t, "maker": m, "offsets": offs[i:i + 400], "bufsize": 65536})
                # files larger than the transfer buffer: cuts at every multiple of the buffer size inside the data (+-1)
                if t in ("dir2", "nested", "three_files", "longname"):
                    for bs in (256, 512) if quick else (100, 256, 512, 700):
                        cuts = sorted({o + k * bs + d for o, kd in member_regions(data) if kd == "data"
                                       for k in range(0, 8) for d in (-1, 0, 1) if 0 <= o + k * bs + d < len(data)})
                        items.append({"kind": "truncate", "tree": t, "maker": m, "offsets": cuts, "bufsize": bs})
                # header checksum corruption: bytes 148..155 of every header block
                hdrs = [o for o, k in member_regions(data) if k == "header"]
                items.append({"kind": "corrupt", "tree": t, "maker": m, "offsets": [h + 148 + j for h in hdrs for j in range(8)],
                              "bufsize": 65536})
    for t in trees:
        for bs in (1, 512, 16384) if not quick else (512, 16384):
            if t == "big_file" and bs == 1:
                continue
            items.append({"kind": "write", "tree": t, "bufsize": bs})
    return items


def main(argv=None):
    args = runner.tier_args(argv)
    worker_init()
    if args.replay:
        p = json.load(open(args.replay))["replay"]
        r = check_chunk(p)
        for k, m, _ in r.failures:
            print(f"VIOLATION property={PROP} replay={args.replay}\n  {k}: {m}")
        return 1 if r.failures else 0
    rep = runner.Report(PROP, args.tier, "fault_enumeration", runner.seed())
    scratch = os.path.join(runner.scratch_dir(), "c23-main")
    os.makedirs(scratch, exist_ok=True)
    items = all_items(args.tier, scratch)
    per = 1
    chunks = [{"items": items[i:i + per]} for i in range(0, len(items), per)]
    enumr.run_enum(rep, f"checks.{PROP}", chunks, workers=args.workers)
    rep.coverage.update({"archives": len({(i.get('tree'), i.get('maker')) for i in items if 'maker' in i}), "items": len(items)})
    rep.coverage["rule"] = (
        "archives of 8-11 tree shapes (empty/one-block/executable/70 KiB file, directories, nesting, names > 100 bytes, hostile "
        "names) written by GNU tar (gnu, pax, ustar) and Python tarfile (gnu, pax, ustar) x EVERY fixed chunk size of the "
        "listed set (thorough: 1..1029) x copy buffer sizes; every placement of 1 (2) short reads (1 byte / half / n-1) over "
        "all read calls; the stream cut after EVERY byte offset (quick: every block boundary, +-1 and mid-block) and every "
        "header-checksum byte flipped; archives written by AioTarStream read back by GNU tar and tarfile; oracle: complete "
        "stream => extracted tree (paths, bytes, x-bits) equals the source; damaged stream => the copy raises or the tree is "
        "complete and equal, and it always terminates; distinct = distinct (archive, environment answer class)")
    rep.assumptions = ["the stream is an in-memory StreamWrapper: read(n) returns at most n bytes, b'' only at end of stream",
                       "a reader that asks an exhausted stream 2000 more times is judged non-terminating"]
    return rep.finish()


if __name__ == "__main__":
    sys.exit(main())
