"""C21 -- the data-location registry answers consistently with its history.

E2: BFS over register_path / invalidate_location / register_relation / get_source_location histories on
the real DefaultDataManager; a history-derived reference (plain dicts, no path tree) says which
(path, location) pairs must be available."""
from __future__ import annotations

import asyncio
import json
import posixpath
import sys

from mc import opsearch, runner, wfkit
from mc.loop import execute
from mc.opsearch import StepResult

from streamflow.core.data import DataType
from streamflow.core.deployment import ExecutionLocation
from streamflow.data.manager import DefaultDataManager

PROP = "C21"
PATHS = ["/a", "/a/b", "/a/b/c", "/a/d", "/x/y"]
UNIVERSE = ["/", "/a", "/a/b", "/a/b/c", "/a/d", "/x", "/x/y", "/m", "/m/b", "/m/b/c"]


def worker_init():
    wfkit.quiet_logging()


class _Ckpt:
    def register(self, data_location):
        pass


class _DM:
    def __init__(self):
        self._c = {}

    def get_connector(self, name):
        return self._c.setdefault(name, object())


class _Ctx:
    def __init__(self):
        self.checkpoint_manager = _Ckpt()
        self.deployment_manager = _DM()


def locations():
    l1 = ExecutionLocation(name="l1", deployment="d1", hostname="h1")
    l2 = ExecutionLocation(name="l2", deployment="d2", hostname="h2")
    l3 = ExecutionLocation(name="l3", deployment="d3", hostname="h3", wraps=l1, mounts={"/m": "/a"}, stacked=False)
    return {"L1": l1, "L2": l2, "L3": l3}


def ancestors_or_self(p):
    out = [p]
    while p != "/":
        p = posixpath.dirname(p)
        out.append(p)
    return out


def beneath_or_eq(q, p):
    return q == p or p == "/" or q.startswith(p + "/")


class Ref:
    """History-derived reference.  A *registration instance* is created whenever a path becomes registered
    on a location where it is not currently valid; invalidation kills instances; relations link instances."""

    def __init__(self):
        self.inst = {}  # (L, P) -> [valid flags per instance]; the last one is the current instance
        self.rel = set()  # frozenset({(L,P,i),(L',P',j)})
        self.ever_invalidated = set()

    def cur(self, L, P):
        v = self.inst.get((L, P))
        return (L, P, len(v) - 1) if v else None

    def valid(self, k):
        return bool(k) and self.inst[(k[0], k[1])][k[2]]

    def is_valid(self, L, P):
        v = self.inst.get((L, P))
        return bool(v) and v[-1]

    def register(self, L, P):
        for a in ancestors_or_self(P):
            if not self.is_valid(L, a):
                self.inst.setdefault((L, a), []).append(True)
        if L == "L3" and beneath_or_eq(P, "/m"):
            inner = "/a" + P[len("/m"):]
            self.register("L1", inner)
            self.rel.add(frozenset({self.cur("L3", P), self.cur("L1", inner)}))

    def invalidate(self, L, P):
        for (l, q), v in self.inst.items():
            if l == L and beneath_or_eq(q, P) and v[-1]:
                v[-1] = False
                self.ever_invalidated.add((l, q))

    def relate(self, a, b):
        self.rel.add(frozenset({self.cur(*a), self.cur(*b)}))

    def avail(self, L, P):
        if self.is_valid(L, P):
            return True
        for r in self.rel:
            x, y = tuple(r)
            for u, v in ((x, y), (y, x)):
                if u[1] == P and v[0] == L and self.valid(v):
                    return True
        return False


def tree_of(p):
    return p.split("/")[1] if p != "/" else ""


async def _apply(loop, cfg, hist, res):
    loop.mute = True
    dm = DefaultDataManager(_Ctx())
    locs = locations()
    ref = Ref()
    records = {}  # (L,P) -> latest DataLocation returned by register_path
    problems = []

    def check(where):
        for ln, loc in locs.items():
            for p in UNIVERSE:
                try:
                    got = bool(dm.get_data_locations(p, loc.deployment, loc.name))
                except Exception as e:  # noqa
                    problems.append(("query-raises", f"{where}: get_data_locations({p},{ln}) raised {type(e).__name__}: {e}"))
                    continue
                want = ref.avail(ln, p)
                if got != want:
                    kind = "missing" if want else "spurious"
                    problems.append((kind, f"{where}: {p} on {ln} reported {'available' if got else 'unavailable'}, "
                                           f"history says {'available' if want else 'unavailable'}"))
        # data_type filter consistency
        for ln, loc in locs.items():
            for p in UNIVERSE:
                for dl in dm.get_data_locations(p, loc.deployment, loc.name):
                    if dl.data_type == DataType.INVALID:
                        problems.append(("returns-invalid", f"{where}: INVALID record returned for {p} on {ln}"))

    for op in hist:
        k = op[0]
        try:
            if k == "reg":
                records[(op[1], op[2])] = dm.register_path(locs[op[1]], op[2], relpath=posixpath.basename(op[2]))
                ref.register(op[1], op[2])
            elif k == "inv":
                # op[3] (optional): textual variant of the same path, as callers may pass it un-normalised
                dm.invalidate_location(locs[op[1]], op[2] + (op[3] if len(op) > 3 else ""))
                ref.invalidate(op[1], op[2])
            elif k == "rel":
                a, b = (op[1], op[2]), (op[3], op[4])
                dm.register_relation(records[a], records[b])
                ref.relate(a, b)
            elif k == "src":
                got = await dm.get_source_location(op[1], locs[op[2]].deployment)
                valid_primary = [dl for dl in dm.get_data_locations(op[1], data_type=DataType.PRIMARY)]
                if got is None and valid_primary:
                    problems.append(("source-none", f"get_source_location({op[1]}) is None although valid primary copies exist"))
                if got is not None and (got.data_type != DataType.PRIMARY or got not in valid_primary):
                    problems.append(("source-invalid", f"get_source_location({op[1]}) returned {got.path} type {got.data_type}"))
        except Exception as e:  # noqa
            problems.append(("op-raises", f"{op} raised {type(e).__name__}: {e}"))
            break
        check(f"after {op}")
        if problems:
            break
    # enabled
    en = []
    nreg = sum(1 for o in hist if o[0] == "reg")
    related = {(k[0], k[1]) for r in ref.rel for k in r}
    for ln in cfg["locs"]:
        for p in (cfg["paths3"] if ln == "L3" else cfg.get("paths_by_loc", {}).get(ln, cfg["paths"])):
            if nreg >= cfg["max_reg"]:
                continue
            if cfg.get("strict"):
                # (r1) never register a path that is currently valid on that location (register_path would hand
                #      back a record that is not the registered one -- finding G2, probed separately)
                if ref.is_valid(ln, p):
                    continue
                # (r3) never re-register a path one of whose instances took part in a relation (finding G1)
                #      -- with "below_related" a NEW path beneath a related (possibly invalidated) directory may still
                #      be registered: the directory comes back as a fresh instance, the cut relation stays cut
                if (ln, p) in related or (not cfg.get("below_related") and any((ln, a) in related for a in ancestors_or_self(p))):
                    continue
                if ln == "L3" and any(ref.inst.get(("L1", "/a" + a[len("/m"):])) for a in ancestors_or_self(p)
                                      if beneath_or_eq(a, "/m")) and not cfg.get("wrap_reuse"):
                    continue
            en.append(["reg", ln, p])
    for (ln, p), v in sorted(ref.inst.items()):
        # the API's only caller invalidates paths of registered records
        if p != "/" and ln in cfg["locs"]:
            if sum(1 for o in hist if o[0] == "inv") < cfg["max_inv"]:
                en.append(["inv", ln, p])
                if cfg.get("unnormalised"):
                    en.append(["inv", ln, p, "/"])
    keys = sorted(k for k in records if ref.is_valid(*k))
    if sum(1 for o in hist if o[0] == "rel") < cfg["max_rel"]:
        for a in keys:
            for b in keys:
                if not a[0] < b[0]:  # different locations only
                    continue
                if cfg.get("strict"):
                    # (r2) the two copies live in path trees the other location never registered (no implicit
                    #      same-location cross links -- finding G3, probed separately)
                    ta, tb = tree_of(a[1]), tree_of(b[1])
                    if any(l == b[0] and tree_of(q) == ta for (l, q) in ref.inst) or \
                            any(l == a[0] and tree_of(q) == tb for (l, q) in ref.inst):
                        continue
                    # (r3) only first instances (never invalidated) are related
                    if a in ref.ever_invalidated or b in ref.ever_invalidated:
                        continue
                en.append(["rel", a[0], a[1], b[0], b[1]])
    if cfg.get("src") and hist and hist[-1][0] != "src":
        for p in cfg["paths"][:2]:
            en.append(["src", p, "L2"])
    res["problems"] = problems
    res["enabled"] = en
    # canonical: the registry content itself (every record list and valid_paths per node)
    canon = []

    def walk(node, path):
        for dep, names in sorted(node.locations.items()):
            for nm, recs in sorted(names.items()):
                canon.append((path, dep, nm, tuple((r.path, r.data_type.name) for r in recs),
                              tuple(sorted(node.valid_paths.get(dep, {}).get(nm, ())))))
        for tok, ch in sorted(node.children.items()):
            walk(ch, posixpath.join(path, tok))

    walk(dm.path_mapper._filesystem, "")
    res["canon"] = (tuple(canon), tuple(sorted(k for k in records)))


def step(cfg, hist) -> StepResult:
    res = {}
    ex = execute(lambda loop: _apply(loop, cfg, hist, res), [])
    if ex.error or ex.hang:
        return StepResult(("err", json.dumps(hist)), [("C21|harness-error", f"{ex.error or ex.pending} after {hist}")], [], len(hist))
    fails = []
    kinds = [o[0] for o in hist]
    shape = "-".join(kinds)
    for kind, msg in res["problems"][:2]:
        fails.append((f"C21|{kind}|ops={shape}", msg + f"; history {hist}"))
    return StepResult(res["canon"], fails, res["enabled"], 1, obs=hash(res["canon"]))


def configs_for(tier):
    q = tier == "quick"
    return [
        # register / invalidate only, both locations over the same path tree: isolation between locations
        {"strict": True, "locs": ["L1", "L2"], "paths": PATHS, "paths3": [], "max_reg": 3, "max_inv": 2 if q else 3,
         "max_rel": 0, "depth": 5 if q else 6, "src": True},
        {"strict": True, "locs": ["L1"], "paths": ["/a/b", "/a/b/c", "/a/d"], "paths3": [], "max_reg": 4, "max_inv": 3,
         "max_rel": 0, "depth": 6 if q else 7, "unnormalised": True},
        # relations between copies in disjoint trees
        {"strict": True, "locs": ["L1", "L2"], "paths": ["/a/b", "/a/b/c", "/x/y"], "paths3": [],
         "paths_by_loc": {"L1": ["/x/y", "/x"], "L2": ["/a/b", "/a/b/c", "/a/d"]}, "max_reg": 3 if q else 4,
         "max_inv": 2, "max_rel": 1, "depth": 5 if q else 7, "src": True},
        # something new is written beneath a related directory (before or after its invalidation)
        {"strict": True, "below_related": True, "locs": ["L1", "L2"], "paths": ["/a/b", "/a/b/c", "/x/y"], "paths3": [],
         "paths_by_loc": {"L1": ["/a/b", "/a/b/c", "/a"], "L2": ["/x/y", "/x"]}, "max_reg": 3 if q else 4,
         "max_inv": 2, "max_rel": 1, "depth": 5 if q else 7, "src": True},
        # wrapped location (mount /m -> /a on L1)
        {"strict": True, "locs": ["L1", "L3"], "paths": ["/a/d", "/x/y"], "paths3": ["/m/b", "/m/b/c"],
         "max_reg": 2 if q else 3, "max_inv": 2, "max_rel": 0, "depth": 4 if q else 6},
    ]


PROBES = {
    # G1: a re-registered copy related after its first instance was invalidated is not reported
    "G1-reregistered-copy-not-related": [["reg", "L1", "/x/y"], ["inv", "L1", "/x/y"], ["reg", "L1", "/x/y"],
                                         ["reg", "L2", "/a/b"], ["rel", "L1", "/x/y", "L2", "/a/b"]],
    # G2: register_path of an already registered path returns a record that is not the registered one
    "G2-orphan-record-survives-invalidation": [["reg", "L2", "/a/b/c"], ["reg", "L1", "/x/y"], ["reg", "L2", "/a/b"],
                                               ["rel", "L1", "/x/y", "L2", "/a/b"], ["inv", "L2", "/a"]],
    # G3: register_relation links every record of the source node, also those of the destination's location
    "G3-relation-invalidates-ancestor-on-same-location": [["reg", "L1", "/a"], ["reg", "L2", "/a/d"],
                                                          ["rel", "L1", "/a", "L2", "/a/d"], ["inv", "L2", "/a/d"]],
}
PROBES["G3b-ancestor-invalidation-follows-relation-into-another-tree"] = [
    ["reg", "L2", "/a/b/c"], ["reg", "L1", "/x/y"], ["rel", "L1", "/x/y", "L2", "/a/b/c"], ["reg", "L1", "/a/b"],
    ["inv", "L1", "/a"]]
PROBE_CFG = {"locs": ["L1", "L2"], "paths": PATHS, "paths3": [], "max_reg": 9, "max_inv": 9, "max_rel": 9, "depth": 9}


def main(argv=None):
    args = runner.tier_args(argv)
    worker_init()
    if args.replay:
        payload = json.load(open(args.replay))["replay"]
        r = step(payload["config"], payload["history"])
        for k, m in r.failures:
            print(f"VIOLATION property={PROP} replay={args.replay}\n  {k}: {m}")
        return 1 if r.failures else 0
    rep = runner.Report(PROP, args.tier, "model_checking", runner.seed())
    cfgs = configs_for(args.tier)
    st = opsearch.bfs(f"checks.{PROP}", cfgs, 5, workers=args.workers,
                      time_cap=args.time_cap or (240 if args.tier == "quick" else 1500))
    for name, hist in PROBES.items():
        r = step(PROBE_CFG, hist)
        if r.failures:
            rep.fail(f"C21|probe|{name}", r.failures[0][1], {"config": PROBE_CFG, "history": hist})
    rep.coverage["probes"] = sorted(PROBES)
    opsearch.bfs_report(rep, sys.modules[__name__], cfgs, st, 5,
                        samples=[{"config": cfgs[0], "history": [["reg", "L1", "/a/b"], ["inv", "L1", "/a/b"],
                                                                 ["reg", "L1", "/a/b"], ["reg", "L2", "/x/y"],
                                                                 ["rel", "L1", "/a/b", "L2", "/x/y"]]}])
    rep.coverage["rule"] = (
        "BFS over all sequences of register_path(L,P) / invalidate_location(L,P) (P registered on L) / "
        "register_relation(valid first-instance records on different locations in disjoint path trees) / get_source_location on locations L1, L2 (two "
        "deployments) and L3 (wraps L1 through mount /m -> /a) over the path tree {/a,/a/b,/a/b/c,/a/d,/x/y}; after "
        "every operation availability of EVERY (path, location) of a 10-path universe is compared with the "
        "history-derived reference; canonical state = complete registry content (records and valid_paths per node)")
    rep.assumptions = [
        "invalidate_location is only called for paths registered on that location (its only caller passes records)",
        "relations are only registered between copies on different locations",
        "at most one explicit relation per history (several relations sharing a copy need a transitive reference, which is not built)",
        "alphabet restrictions r1-r3 keep the BFS away from the three recorded registry defects G1-G3, which are "
        "probed separately on their minimal histories (see known_findings.json)",
    ]
    return rep.finish()


if __name__ == "__main__":
    sys.exit(main())
