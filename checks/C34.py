"""C34 -- exported run provenance is self-contained and consistent.

For generated CWL workflows (the C29 grammar) that complete: ``streamflow run`` with a file database, then
``streamflow prov``; the archive and its RO-Crate metadata are checked structurally against the run."""
from __future__ import annotations

import hashlib
import itertools
import json
import os
import shutil
import sys
import zipfile

from checks import _cwl
from mc import enumr, runner, wfkit
from mc.enumr import ChunkResult

PROP = "C34"

SF_FILE = """version: v1.0
workflows:
  mywf:
    type: cwl
    config:
      file: wf.cwl
      settings: job.json
database:
  type: default
  config:
    connection: %s
"""


def worker_init():
    wfkit.quiet_logging()


def refs(obj, out):
    """every {"@id": x} reference nested in an entity (not the entity's own @id)"""
    if isinstance(obj, dict):
        if set(obj.keys()) == {"@id"}:
            out.append(obj["@id"])
            return
        for k, v in obj.items():
            if k != "@id":
                refs(v, out)
    elif isinstance(obj, list):
        for v in obj:
            refs(v, out)


def leaves(v):
    if isinstance(v, list):
        return [x for e in v for x in leaves(e)]
    if isinstance(v, dict):
        if "@id" in v and len(v) == 1:
            return [("ref", v["@id"])]
        if "value" in v:
            return leaves(v["value"])
        return [x for e in v.values() for x in leaves(e)]
    return [str(v)]


def job_leaves(v):
    if isinstance(v, list):
        return [x for e in v for x in job_leaves(e)]
    if isinstance(v, dict):
        if v.get("class") in ("File", "Directory"):
            return [("file",)]
        return [x for k in v for x in job_leaves(v[k])]
    return [str(v)]


def check_one(spec, scratch):
    wd = os.path.join(scratch, "p")
    shutil.rmtree(wd, ignore_errors=True)
    os.makedirs(os.path.join(wd, "tmp"))
    wf, ext = _cwl.build(spec)
    json.dump(wf, open(os.path.join(wd, "wf.cwl"), "w"), indent=1)
    json.dump(_cwl.JOB, open(os.path.join(wd, "job.json"), "w"))
    with open(os.path.join(wd, "streamflow.yml"), "w") as f:
        f.write(SF_FILE % os.path.join(wd, "db.sqlite"))
    env = {"TMPDIR": os.path.join(wd, "tmp")}
    rc, out, err = _cwl._run([_cwl.PY, "-m", "streamflow", "run", "streamflow.yml", "--outdir", "out", "--name", "run1", "--quiet"], wd, env)
    if rc != 0:
        return "run-failed", [], None
    result = _cwl._parse(out)
    rc, out, err = _cwl._run([_cwl.PY, "-m", "streamflow", "prov", "run1", "--file", "streamflow.yml", "--outdir", "prov"], wd, env)
    problems = []
    if rc != 0:
        return "ok", [("prov-command-fails", f"streamflow prov exits {rc}: {err[-400:]}")], result
    zips = [x for x in os.listdir(os.path.join(wd, "prov")) if x.endswith(".zip")]
    if len(zips) != 1:
        return "ok", [("no-archive", f"prov directory holds {os.listdir(os.path.join(wd, 'prov'))}")], result
    try:
        z = zipfile.ZipFile(os.path.join(wd, "prov", zips[0]))
        bad = z.testzip()
        names = set(z.namelist())
        meta = json.loads(z.read("ro-crate-metadata.json"))
    except Exception as e:  # noqa
        return "ok", [("archive-unreadable", f"{type(e).__name__}: {e}")], result
    if bad:
        problems.append(("archive-corrupt", f"corrupt member {bad}"))
    graph = meta.get("@graph")
    if not isinstance(graph, list) or "@context" not in meta:
        return "ok", [("not-json-ld", "metadata has no @context/@graph")], result
    ids = [e.get("@id") for e in graph]
    dup = sorted({i for i in ids if ids.count(i) > 1 and i is not None})
    if dup or None in ids:
        problems.append(("duplicate-ids", f"identifiers defined more than once: {dup[:5]} (entities without @id: {ids.count(None)})"))
    idset = set(ids)
    dangling = set()
    for e in graph:
        r = []
        refs(e, r)
        for x in r:
            # web resources (specifications, licences, the CWL language) may be referenced without being described; every
            # LOCAL identifier (#..., _:..., relative paths) must resolve inside the graph
            if x not in idset and not x.startswith(("http://", "https://")):
                dangling.add(x)
    if dangling:
        problems.append(("dangling-reference", f"references to identifiers that are not in the graph: {sorted(dangling)[:6]}"))
    # files
    for e in graph:
        t = e.get("@type")
        types = t if isinstance(t, list) else [t]
        i = e.get("@id", "")
        if "File" in types and not i.startswith(("http://", "https://", "#", "file://")):
            member = i[2:] if i.startswith("./") else i
            if member not in names:
                problems.append(("file-missing-from-archive", f"File entity {i} ({e.get('alternateName')}) is not in the archive"))
                continue
            data = z.read(member)
            if "sha1" in e and hashlib.sha1(data).hexdigest() != e["sha1"]:
                problems.append(("file-checksum", f"File {i}: recorded sha1 {e['sha1']} but the archived bytes hash to {hashlib.sha1(data).hexdigest()}"))
            if "contentSize" in e and int(e["contentSize"]) != len(data):
                problems.append(("file-size", f"File {i}: recorded size {e['contentSize']} but {len(data)} bytes archived"))
    # parameters and values of the main action
    by_id = {e.get("@id"): e for e in graph}
    root = by_id.get("./", {})
    main_wf = (root.get("mainEntity") or {}).get("@id")
    actions = [e for e in graph if e.get("@type") == "CreateAction" and (e.get("instrument") or {}).get("@id") == main_wf]
    if len(actions) != 1:
        problems.append(("main-action", f"{len(actions)} CreateAction entities for the main workflow {main_wf}"))
    else:
        act = actions[0]
        def values_of(key):
            out = {}
            for r in act.get(key, []) if isinstance(act.get(key), list) else [act.get(key)] if act.get(key) else []:
                ent = by_id.get(r.get("@id"), {})
                ex = ent.get("exampleOfWork")
                exs = ex if isinstance(ex, list) else [ex] if ex else []
                for x in exs:
                    out[x.get("@id")] = ent
            return out
        ins, outs = values_of("object"), values_of("result")
        for name, val in _cwl.JOB.items():
            pid = f"{main_wf}#{name}"
            if pid not in by_id or by_id[pid].get("@type") != "FormalParameter":
                problems.append(("input-parameter-missing", f"workflow input {name} has no FormalParameter {pid}"))
            elif pid not in ins:
                problems.append(("input-value-missing", f"workflow input {name} has no value entity connected to the run"))
            else:
                got = sorted(map(str, leaves(ins[pid].get("value"))))
                want = sorted(map(str, job_leaves(val)))
                if got != want:
                    problems.append(("input-value-differs", f"workflow input {name} = {val!r} is recorded as {ins[pid].get('value')!r}"))
        for name, val in (result or {}).items():
            pid = f"{main_wf}#{name}"
            if pid not in by_id:
                problems.append(("output-parameter-missing", f"workflow output {name} has no FormalParameter {pid}"))
            elif pid not in outs:
                if val is not None and val != []:
                    problems.append(("output-value-missing", f"workflow output {name} = {json.dumps(val)[:80]} has no value entity connected to the run"))
            else:
                ent = outs[pid]
                got = leaves(ent.get("value")) if "value" in ent else [("ref", ent["@id"])]
                want = job_leaves(val) if val is not None else []
                nfiles = sum(1 for x in want if x == ("file",))
                if nfiles:
                    if sum(1 for x in got if isinstance(x, tuple)) != nfiles:
                        problems.append(("output-value-differs", f"workflow output {name}: {nfiles} file(s) produced, recorded {got}"))
                elif sorted(map(str, got)) != sorted(map(str, want)) and not (val is None and got in ([], ["None"])):
                    problems.append(("output-value-differs", f"workflow output {name} = {json.dumps(val)[:80]} is recorded as {ent.get('value')!r}"))
    return "ok", problems, result


def check_chunk(chunk):
    scratch = os.path.join(runner.scratch_dir(), f"c34-{os.getpid()}")
    os.makedirs(scratch, exist_ok=True)
    fails, n, distinct = {}, 0, set()
    counts = {"completed": 0, "run_failed": 0}
    try:
        for spec in chunk["items"]:
            n += 1
            status, problems, result = check_one(spec, scratch)
            counts["completed" if status == "ok" else "run_failed"] += 1
            distinct.add(("+".join(spec["features"]), status, tuple(sorted({p[0] for p in problems}))))
            for kind, msg in problems:
                key = f"C34|{kind}|{'+'.join(spec['features'])}"
                if kind == "input-value-differs" and any(f.startswith(("merge", "vf_")) for f in spec["features"]):
                    key = "C34|input-value-differs|cause=transformed-step-input-value-recorded-as-the-workflow-input"
                if kind == "output-value-differs" and "null" in msg.split("is recorded as")[0]:
                    key = "C34|output-value-differs|cause=null-elements-of-an-output-array-dropped"
                fails.setdefault(key, (key, f"features {spec['features']}: {msg}", {"items": [spec]}))
    finally:
        shutil.rmtree(scratch, ignore_errors=True)
    return ChunkResult(n, distinct, list(fails.values()), samples=[chunk["items"][0]], extra=counts)


def programs(tier):
    names = list(_cwl.FEATURES)
    if tier == "quick":
        sel = ["expr", "clt", "scatter3", "scatter0", "flat", "when_false", "when_scatter", "pick_all", "merge_flat", "subwf", "loop3",
               "loop3_all", "record", "file_out", "file_scatter", "file", "dir_out", "dir_scatter", "dir_use"]
        return [{"features": [f]} for f in sel] + [{"features": ["file_scatter", "expr"]}, {"features": ["loop3", "file_out"]},
                                                     {"features": ["record", "scatter3"]}]
    progs = [{"features": [f]} for f in names]
    reps = ["expr", "scatter3", "when_false", "loop3", "subwf", "file_out", "file_scatter", "record", "pick_first", "merge_nested",
            "dir_out"]
    progs += [{"features": [a, b]} for a, b in itertools.product(reps, repeat=2) if a != b]
    return progs


def main(argv=None):
    args = runner.tier_args(argv)
    worker_init()
    if args.replay:
        p = json.load(open(args.replay))["replay"]
        r = check_chunk(p)
        for k, m, _ in r.failures:
            print(f"VIOLATION property={PROP} replay={args.replay}\n  {k}: {m}")
        return 1 if r.failures else 0
    rep = runner.Report(PROP, args.tier, "exploration", runner.seed())
    progs = programs(args.tier)
    chunks = [{"items": [p]} for p in progs]
    enumr.run_enum(rep, f"checks.{PROP}", chunks, workers=args.workers)
    rep.coverage.update({"programs": len(progs)})
    if rep.coverage.get("completed", 0) < 0.8 * len(progs):
        rep.internal_errors.append(f"only {rep.coverage.get('completed')} of {len(progs)} generated workflows complete")
    rep.coverage["rule"] = (
        "generated CWL workflows of the C29 grammar (quick: 22 programs covering tools, scatter 0/3, flat cross product, when, "
        "pickValue, linkMerge, sub-workflow, loops, records, File and Directory (three files, one nested) outputs single and scattered; thorough: every single feature + "
        "all ordered pairs of 11 representatives), each executed by `streamflow run` on a file database and exported by "
        "`streamflow prov`; oracle: readable zip, JSON-LD with unique @id, every reference resolves inside the graph, every File "
        "entity present with the recorded sha1 (and size), one CreateAction for the main workflow, every workflow input and output "
        "has a FormalParameter and a value entity whose leaves equal the run's values; distinct = (program, problem kinds)")
    rep.assumptions = ["the same small program grammar as C29 (1-3 generated steps)", "values are compared as multisets of leaf strings"]
    return rep.finish()


if __name__ == "__main__":
    sys.exit(main())
