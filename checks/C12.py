"""C12 -- see checks/_sched.py (shared scheduler harness)."""
import sys

from checks import _sched

PROP = "C12"
run_case = _sched.make_run_case(PROP)


def worker_init():
    from mc import wfkit

    wfkit.quiet_logging()


def main(argv=None):
    return _sched.generic_main(PROP, sys.modules[__name__], argv, retry_delay=RETRY, rule_extra=RULE)


RETRY = 0  # retry_delay=0 -> retry_interval None: waiters sleep on the condition only, no timer can mask a lost wake-up
RULE = ("oracle at final quiescence: no schedule() request is still waiting while some target has enough free "
        "capacity; every request is eventually granted once the other jobs are terminal")

if __name__ == "__main__":
    sys.exit(main())
