"""C30 -- CWL tools receive exactly the arguments the reference runner passes (differential against cwltool)."""
from __future__ import annotations

import itertools
import json
import os
import shutil
import sys

from checks import _cwl
from mc import enumr, runner, wfkit
from mc.enumr import ChunkResult

PROP = "C30"

STRINGS = {"plain": "abc", "empty": "", "space": "a b", "squote": "it's", "dquote": '"q"', "dollar": "$HOME", "semicolon": "a;b",
           "star": "*", "unicode": "ü", "dash": "-x", "backslash": "a\\b", "backtick": "`id`", "newline": "l1\nl2", "tab": "a\tb"}


def worker_init():
    wfkit.quiet_logging()


def tool(inputs, arguments=None, shell=False, env=None, stdin=None, base=None):
    """a CommandLineTool that prints every argument it receives as [arg] on its own line"""
    t = {"cwlVersion": "v1.2", "class": "CommandLineTool", "baseCommand": base or ["printf", "[%s]\\n"],
         "requirements": {"InlineJavascriptRequirement": {}}, "inputs": inputs, "stdout": "argv.txt",
         "outputs": {"argv": {"type": "string", "outputBinding": {"glob": "argv.txt", "loadContents": True,
                                                                    "outputEval": "$(self[0].contents)"}}}}
    if arguments:
        t["arguments"] = arguments
    if shell:
        t["requirements"]["ShellCommandRequirement"] = {}
    if env is not None:
        t["requirements"]["EnvVarRequirement"] = {"envDef": env}
    if stdin:
        t["stdin"] = stdin
    return t


def bindings():
    """inputBinding option combinations"""
    out = []
    for pos in (None, -1, 0, 2):
        for prefix in (None, "-p", "--long="):
            for separate in (None, False):
                b = {}
                if pos is not None:
                    b["position"] = pos
                if prefix is not None:
                    b["prefix"] = prefix
                if separate is not None:
                    if prefix is None:
                        continue
                    b["separate"] = separate
                out.append(b)
    return out


def cases(tier):
    quick = tier == "quick"
    cs = []

    def add(label, doc, job, ext=False):
        cs.append({"label": label, "doc": doc, "job": job})

    # 1. every string class through a plain positional binding, a prefixed one, and a non-separated prefix
    for sname, sval in STRINGS.items():
        for bname, b in (("pos", {"position": 1}), ("prefix", {"position": 1, "prefix": "-s"}),
                         ("joined", {"position": 1, "prefix": "--s=", "separate": False})):
            add(f"string:{sname}:{bname}", tool({"s": {"type": "string", "inputBinding": b}}), {"s": sval})
    # 2. types x binding option combinations
    types = {"int": ("int", 42), "boolean_true": ("boolean", True), "boolean_false": ("boolean", False), "string": ("string", "a b"),
             "float": ("float", 1.5), "null": (["null", "string"], None),
             "array": ({"type": "array", "items": "string"}, ["x y", "z", ""]),
             "array_inner": ({"type": "array", "items": "string", "inputBinding": {"prefix": "-i"}}, ["x y", "z"]),
             "enum": ({"type": "enum", "symbols": ["one", "two"]}, "two"),
             "record": ({"type": "record", "name": "r", "fields": {"p": {"type": "int", "inputBinding": {"prefix": "-P"}},
                                                                    "q": {"type": "string", "inputBinding": {"position": 5}}}}, {"p": 3, "q": "q v"})}
    for tname, (ttype, tval) in types.items():
        for b in (bindings() if not quick else bindings()[::2]):
            add(f"type:{tname}:{json.dumps(b, sort_keys=True)}", tool({"v": {"type": ttype, "inputBinding": b}}), {"v": tval})
        # (itemSeparator '' is left out: cwltool drops the whole value for an empty separator, which the specification does not
        #  support -- "join the array elements into a single string" -- so the reference is not an oracle there)
        for sep in ((",", " ") if not quick else (",",)):
            if tname.startswith("array") and tname == "array":
                add(f"type:{tname}:itemSeparator={sep!r}", tool({"v": {"type": ttype, "inputBinding": {"position": 1, "prefix": "-A", "itemSeparator": sep}}}),
                    {"v": tval})
                add(f"type:{tname}:itemSeparator={sep!r}:joined", tool({"v": {"type": ttype, "inputBinding": {"prefix": "-A=", "separate": False, "itemSeparator": sep}}}),
                    {"v": tval})
    # empty arrays: nothing reaches the command line, with or without itemSeparator / prefix / inner binding
    for label, b in (("plain", {"position": 1}), ("sep", {"position": 1, "itemSeparator": ","}),
                     ("prefix-sep", {"position": 1, "prefix": "--tags", "itemSeparator": ","}),
                     ("joined-sep", {"prefix": "--t=", "separate": False, "itemSeparator": ","}), ("prefix", {"prefix": "-p"})):
        add(f"type:array-empty:{label}", tool({"v": {"type": {"type": "array", "items": "string"}, "inputBinding": b},
                                              "w": {"type": "string", "inputBinding": {"position": 2}}}), {"v": [], "w": "after"})
    add("type:array-empty:inner", tool({"v": {"type": {"type": "array", "items": "string", "inputBinding": {"prefix": "-i"}},
                                              "inputBinding": {"position": 1}}, "w": {"type": "string", "inputBinding": {"position": 2}}}),
        {"v": [], "w": "after"})
    add("valueFrom:empty-array-sep", tool({"s": {"type": "string", "inputBinding": {"position": 1, "itemSeparator": ",", "valueFrom": "$([])"}},
                                           "w": {"type": "string", "inputBinding": {"position": 2}}}), {"s": "x", "w": "after"})
    # 3. valueFrom on the binding, arguments entries, ordering of several inputs
    add("valueFrom:self", tool({"s": {"type": "string", "inputBinding": {"position": 1, "valueFrom": "$(self + '!')"}}}), {"s": "a b"})
    add("valueFrom:other", tool({"s": {"type": "string", "inputBinding": {"position": 1, "valueFrom": "$(inputs.n + 1)"}}, "n": "int"}), {"s": "x", "n": 4})
    add("valueFrom:array", tool({"s": {"type": "string", "inputBinding": {"position": 1, "valueFrom": "$([self, 'k v'])"}}}), {"s": "x"})
    add("arguments:mixed", tool({"a": {"type": "string", "inputBinding": {"position": 2}}, "b": {"type": "int", "inputBinding": {"position": 0}}},
                                arguments=["lit eral", {"position": 1, "valueFrom": "$(inputs.b * 2)"}, {"prefix": "-z", "valueFrom": "zv", "position": 3},
                                           {"valueFrom": "$(null)"}, "$(inputs.a)"]), {"a": "A a", "b": 7})
    for p1, p2, p3 in (itertools.permutations((0, 1, 2)) if not quick else [(0, 1, 2), (2, 1, 0), (1, 1, 1)]):
        add(f"order:{p1}{p2}{p3}", tool({"zz": {"type": "string", "inputBinding": {"position": p1}}, "aa": {"type": "string", "inputBinding": {"position": p2}},
                                         "mm": {"type": "int", "inputBinding": {"position": p3, "prefix": "-m"}}}), {"zz": "Z", "aa": "A", "mm": 1})
    add("order:same-position-by-name", tool({"b2": {"type": "string", "inputBinding": {}}, "a10": {"type": "string", "inputBinding": {}},
                                            "a9": {"type": "string", "inputBinding": {}}}), {"b2": "B", "a10": "A10", "a9": "A9"})
    # positions with different digit counts and signs (numeric, not textual, order), in inputs, arguments and record fields
    names = "abcdefghijkl"
    add("order:twelve-positions", tool({c: {"type": "string", "inputBinding": {"position": 12 - i}} for i, c in enumerate(names)}),
        {c: c.upper() for c in names})
    signed = {"a": -1, "b": -2, "c": -10, "d": 0, "e": 10, "f": 9, "g": 100, "h": 2}
    add("order:signed-positions", tool({c: {"type": "string", "inputBinding": {"position": p}} for c, p in signed.items()}),
        {c: c.upper() for c in signed})
    add("order:arguments-two-digit", tool({"a": {"type": "string", "inputBinding": {"position": 11}}, "b": {"type": "string", "inputBinding": {"position": 2}}},
                                          arguments=[{"position": 10, "valueFrom": "ten"}, {"position": 9, "valueFrom": "nine"},
                                                     {"position": 100, "valueFrom": "hundred"}, {"position": -3, "valueFrom": "minus3"},
                                                     {"position": -20, "valueFrom": "minus20"}]), {"a": "A", "b": "B"})
    add("order:record-fields-two-digit", tool({"v": {"type": {"type": "record", "name": "r2", "fields": {
        "p": {"type": "string", "inputBinding": {"position": 10}}, "q": {"type": "string", "inputBinding": {"position": 9}},
        "r": {"type": "string", "inputBinding": {"position": 2}}, "s": {"type": "string", "inputBinding": {"position": -1}}}},
        "inputBinding": {"position": 1}}}), {"v": {"p": "P", "q": "Q", "r": "R", "s": "S"}})
    # 4. ShellCommandRequirement and shellQuote
    for sname in (STRINGS if not quick else ("space", "squote", "dollar", "semicolon", "star", "empty")):
        for sq in (True, False):
            if not sq and sname in ("semicolon", "star", "backtick", "squote", "dquote", "newline", "backslash", "empty", "tab", "dollar"):
                # unquoted text is interpreted by the shell on purpose: keep only cases whose meaning is the same everywhere
                continue
            add(f"shell:{sname}:shellQuote={sq}", tool({"s": {"type": "string", "inputBinding": {"position": 1, "shellQuote": sq}}}, shell=True), {"s": STRINGS[sname]})
    add("shell:pipe", tool({"s": {"type": "string", "inputBinding": {"position": 1}}}, shell=True,
                           arguments=[{"position": 2, "valueFrom": "|", "shellQuote": False}, {"position": 3, "valueFrom": "tr a-z A-Z", "shellQuote": False}]),
        {"s": "it's"})
    # 5. environment and stdin
    for sname in (STRINGS if not quick else ("plain", "space", "squote", "dquote", "dollar", "empty")):
        add(f"env:{sname}", tool({}, env={"V": STRINGS[sname], "W": "$(inputs.w)"} , base=["sh", "-c", "printf '[%s][%s]' \"$V\" \"$W\""],
                                 ) | {"inputs": {"w": "string"}}, {"w": STRINGS[sname]})
    add("stdin:file", tool({"f": "File"}, stdin="$(inputs.f.path)", base=["cat"]), {"f": {"class": "File", "path": "__INPUT_FILE__"}})
    add("file:arg-basename", tool({"f": {"type": "File", "inputBinding": {"position": 1, "valueFrom": "$(self.basename)"}}}),
        {"f": {"class": "File", "path": "__INPUT_FILE__"}})
    return cs


def check_chunk(chunk):
    scratch = os.path.join(runner.scratch_dir(), f"c30-{os.getpid()}")
    os.makedirs(scratch, exist_ok=True)
    fails, n, distinct = {}, 0, set()
    counts = {"both_succeed": 0, "both_fail": 0, "one_fails": 0}
    try:
        for case in chunk["items"]:
            n += 1
            wd = os.path.join(scratch, "p")
            shutil.rmtree(wd, ignore_errors=True)
            os.makedirs(os.path.join(wd, "tmp-sf"))
            os.makedirs(os.path.join(wd, "tmp-cwltool"))
            inp = os.path.join(wd, "input.txt")  # (cwltool rejects names with spaces unless --relax-path-checks)
            with open(inp, "w") as f:
                f.write("file content\nline2\n")
            job = json.loads(json.dumps(case["job"]).replace("__INPUT_FILE__", inp))
            wf_path, job_path = os.path.join(wd, "tool.cwl"), os.path.join(wd, "job.json")
            json.dump(case["doc"], open(wf_path, "w"), indent=1)
            json.dump(job, open(job_path, "w"))
            rc1, o1, e1 = _cwl.run_streamflow(wd, wf_path, job_path, os.path.join(wd, "o1"))
            rc2, o2, e2 = _cwl.run_cwltool(wd, wf_path, job_path, os.path.join(wd, "o2"))
            ok1, ok2 = rc1 == 0 and o1 is not None, rc2 == 0 and o2 is not None
            counts["both_succeed" if ok1 and ok2 else "both_fail" if not ok1 and not ok2 else "one_fails"] += 1
            cls = case["label"].split(":")[0] + ":" + case["label"].split(":")[1]
            distinct.add((case["label"], ok1, ok2))
            if ok1 != ok2:
                key = f"C30|{'streamflow-fails' if ok2 else 'reference-fails'}|{case['label']}"
                fails.setdefault(key, (key, f"{case['label']}: StreamFlow {'ok ' + json.dumps(o1)[:200] if ok1 else 'FAILS ' + e1[-300:]}; cwltool "
                                            f"{'ok ' + json.dumps(o2)[:200] if ok2 else 'FAILS ' + e2[-300:]}", {"items": [case]}))
            elif ok1 and o1.get("argv") != o2.get("argv"):
                key = f"C30|argv-differs|{case['label']}"
                lab = case["label"]
                if lab.startswith("type:array:"):
                    key = "C30|argv-differs|cause=array-items-with-spaces-split-and-empty-items-dropped"
                elif lab.startswith("env:") and lab.split(":")[1] in ("dollar", "dquote", "backtick", "backslash"):
                    key = "C30|argv-differs|cause=env-value-inside-double-quotes"
                fails.setdefault(key, (key, f"{case['label']} job {json.dumps(job)[:120]}: the tool saw {o1.get('argv')!r} under StreamFlow and "
                                            f"{o2.get('argv')!r} under cwltool", {"items": [case]}))
    finally:
        shutil.rmtree(scratch, ignore_errors=True)
    return ChunkResult(n, distinct, list(fails.values()), samples=[chunk["items"][0]["label"]], extra=counts)


def main(argv=None):
    args = runner.tier_args(argv)
    worker_init()
    if args.replay:
        p = json.load(open(args.replay))["replay"]
        r = check_chunk(p)
        for k, m, _ in r.failures:
            print(f"VIOLATION property={PROP} replay={args.replay}\n  {k}: {m}")
        return 1 if r.failures else 0
    rep = runner.Report(PROP, args.tier, "exploration", runner.seed())
    cs = cases(args.tier)
    nchunks = min(len(cs), 64 if args.tier == "quick" else 192)
    chunks = [{"items": cs[i::nchunks]} for i in range(nchunks)]
    enumr.run_enum(rep, f"checks.{PROP}", chunks, workers=args.workers)
    rep.coverage.update({"tools": len(cs)})
    if rep.coverage.get("both_succeed", 0) < 0.7 * len(cs):
        rep.internal_errors.append(f"generator problem: only {rep.coverage.get('both_succeed')} of {len(cs)} tools run on both runners")
    rep.coverage["rule"] = (
        "CommandLineTools whose command prints every received argument: 14 string classes x 3 binding forms; 10 input types "
        "(int, boolean T/F, string, float, null, array, array with inner binding, enum, record with bound fields) x every "
        "combination of position {none,-1,0,2} x prefix {none,-p,--long=} x separate; itemSeparator variants; valueFrom on "
        "bindings; arguments entries (literal, expression, prefix, null); orderings of three inputs; ShellCommandRequirement "
        "with shellQuote true/false and a pipe; EnvVarRequirement values (literal and expression) for every string class; "
        "stdin redirection; each run by StreamFlow's cwl-runner and by cwltool; oracle: both fail or the printed argument "
        "vectors / environment / stdin are identical; distinct = (case, outcome per runner)")
    rep.assumptions = ["cwltool in /venv is the reference; --no-container; tools with 1-3 bound inputs"]
    return rep.finish()


if __name__ == "__main__":
    sys.exit(main())
