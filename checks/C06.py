"""C06 -- loops emit the last/all iteration values in iteration order, for any count.

(a) direct driver around the real CWLLoopOutputAllStep / CWLLoopOutputLastStep: iteration tokens and
    iteration-termination markers of 1..3 loop instances delivered in every enumerated order;
(b) the complete loop sub-graph as the translator wires it, under the real executor."""
from __future__ import annotations

import asyncio
import sys

from checks import _exec
from mc import runner, wfkit
from mc.explore import Explorer, Outcome
from mc.loop import execute
from mc.stepdrv import Stream, deliver_all

from streamflow.core.workflow import Token, Workflow
from streamflow.cwl.step import CWLLoopOutputAllStep, CWLLoopOutputLastStep
from streamflow.workflow.token import IterationTerminationToken, TerminationToken

PROP = "C06"


def worker_init():
    wfkit.quiet_logging()
    wfkit.patch_port_put()


async def _main(loop, params, res):
    loop.mute = True
    ctx = wfkit.make_context()
    wf = Workflow(ctx, config={}, name="w")
    cls = CWLLoopOutputLastStep if params["method"] == "last" else CWLLoopOutputAllStep
    step = wf.create_step(cls, name="/l/x-loop-output")
    inp, outp = wf.create_port(name="in"), wf.create_port(name="out")
    step.add_input_port("x", inp)
    step.add_output_port("x", outp)
    await wfkit.save_workflow(wf)
    toks = []
    for prefix, k in params["instances"]:
        for i in range(k):
            t = Token(f"{prefix}#{i}", tag=f"{prefix}.{i}", recoverable=True)
            await t.save(ctx.database, port_id=inp.persistent_id)
            toks.append(t)
        toks.append(IterationTerminationToken(tag=f"{prefix}.{k}"))
    st = Stream("in", inp, toks, fifo=False, final=TerminationToken())
    task = asyncio.create_task(step.run(), name="step")
    loop.mute = False
    order = params.get("order")
    res["made"] = await deliver_all(loop, [st], order=[tuple(o) for o in order] if order else None)
    await task
    loop.mute = True
    res["out"] = wfkit.port_dump(outp)
    res["status"] = step.status.name
    await ctx.close()


def expected(params):
    exp = {}
    for prefix, k in params["instances"]:
        vals = [f"{prefix}#{i}" for i in range(k)]
        if params["method"] == "all":
            exp[prefix] = ("ListToken", tuple(vals))
        else:
            exp[prefix] = ("Token", vals[-1] if vals else None)
    return exp


def judge(params, ex, res):
    base = f"C06|direct|{params['method']}|instances={params['instances']}"
    if ex.hang:
        return [(base + "|hang", f"loop output step never terminates: {ex.pending}; deliveries {res.get('made')}")]
    if ex.error:
        return [(base + "|error", f"{ex.error[0]}: {ex.error[1]!r}; deliveries {res.get('made')}")]
    out = res["out"]
    fails = []
    if not out or out[-1][0] != "TerminationToken":
        fails.append((base + "|noterm", f"output port not terminated last: {out}"))
    data = [o for o in out if o[0] != "TerminationToken"]
    if any(o[0] == "TerminationToken" for o in out[:-1]):
        fails.append((base + "|earlyterm", f"termination before the last output: {out}"))
    got = {}
    for cls, tag, val in data:
        if tag in got:
            fails.append((base + "|dup", f"more than one output for instance {tag}: {out}"))
        got[tag] = (cls, val)
    exp = expected(params)
    if got != exp:
        fails.append((base + "|value", f"outputs {got} != expected {exp}; deliveries {res['made']}"))
    return fails


def run_case(params, prefix):
    if params.get("kind") == "exec":
        ex, res = _exec.run_once(params, prefix)
        fails = []
        base = f"C06|exec|{_exec.spec_key(params['spec'])}"
        if ex.hang:
            fails.append((base + "|hang", f"{ex.pending}"))
        elif ex.error or res.get("raised"):
            fails.append((base + "|error", f"{ex.error or res.get('raised')}"))
        else:
            if res.get("ret") != res["expected"]:
                fails.append((base + "|value", f"run() returned {res.get('ret')} expected {res['expected']}"))
            bad = {n: s for n, s in res["statuses"].items() if s[0] not in ("COMPLETED", "SKIPPED")}
            if bad:
                fails.append((base + "|status", f"{bad}"))
        obs = str(res.get("ret"))
        _exec.clean_res(res)
        return Outcome(ex.trace, fails, obs=obs, steps=ex.steps, states=ex.states, signature=ex.signature)
    res = {}
    ex = execute(lambda loop: _main(loop, params, res), prefix)
    return Outcome(ex.trace, judge(params, ex, res), obs=str(res.get("out")), steps=ex.steps, states=ex.states,
                   signature=ex.signature)


def bounded_orders(prefix, k):
    """identity, reverse, single transpositions, rotations of the k iteration tokens x position of the marker"""
    ids = list(range(k))
    perms = {tuple(ids), tuple(reversed(ids))}
    for i in range(k):
        for j in range(i + 1, k):
            p = ids[:]
            p[i], p[j] = p[j], p[i]
            perms.add(tuple(p))
    for r in range(1, k):
        perms.add(tuple(ids[r:] + ids[:r]))
    out = []
    for p in sorted(perms):
        for pos in (0, k // 2, k):
            seq = [(0, f"{prefix}.{i}") for i in p]
            seq.insert(pos, (0, f"{prefix}.{k}"))
            seq.append((0, "TERM"))
            out.append(seq)
    return out


def cases_for(tier):
    cases = []
    for method in ("last", "all"):
        for k in (0, 1, 2, 3):
            cases.append({"method": method, "instances": [["0", k]]})
        cases.append({"method": method, "instances": [["0.0", 2], ["0.1", 0]]})
        cases.append({"method": method, "instances": [["0.0", 1], ["0.1", 2]], "bound": 0 if tier == "quick" else 1})
        cases.append({"method": method, "instances": [["0.9", 1], ["0.10", 1], ["0.11", 0]], "bound": 0 if tier == "quick" else 1})
        if tier == "thorough":
            cases.append({"method": method, "instances": [["0.0", 2], ["0.1", 2]], "bound": 1})
            cases.append({"method": method, "instances": [["0.0", 1], ["0.1", 1], ["0.2", 1], ["0.3", 0]], "bound": 0})
            cases.append({"method": method, "instances": [["0", 4]], "bound": 1})
        for k in ([11] if tier == "quick" else [10, 11, 15]):
            orders = bounded_orders("0", k)
            if tier == "quick":
                orders = orders[::5]
            for o in orders:
                cases.append({"method": method, "instances": [["0", k]], "order": o, "bound": 0})
    ex_specs = [{"prog": "loop", "pred": "false"}, {"prog": "loop", "pred": "lt1"}, {"prog": "loop", "pred": "lt3"},
                {"prog": "loop", "pred": "lt11"}, {"prog": "scatterloop", "starts": [0, 2, 3], "pred": "lt3"},
                {"prog": "loopjob", "pred": "lt3"}]
    if tier == "thorough":
        ex_specs += [{"prog": "loop", "pred": "lt3", "start": 1}, {"prog": "scatterloop", "starts": [3, 0], "pred": "lt3"},
                     {"prog": "scatterloop", "starts": [0, 9], "pred": "lt11"}, {"prog": "loopjob", "pred": "lt1"},
                     {"prog": "loopjob", "pred": "false"}]
    for s in ex_specs:
        for method in ("last", "all"):
            cases.append({"kind": "exec", "spec": dict(s, method=method), "bound": 1 if tier == "quick" else 2})
    return cases


def main(argv=None):
    args = runner.tier_args(argv)
    worker_init()
    if args.replay:
        return _exec.replay_main(PROP, sys.modules[__name__], args.replay)
    cases = cases_for(args.tier)
    bound = 1 if args.tier == "quick" else 2
    cb = {i: c["bound"] for i, c in enumerate(cases) if "bound" in c}
    return _exec.generic_main(
        PROP, sys.modules[__name__], "model_checking", cases, bound, cb,
        rule="(a) real CWLLoopOutput{Last,All}Step: all orders of iteration tokens and iteration-termination markers "
             "of 1..4 instances (k<=4: every permutation; k in 10..15: identity/reverse/transpositions/rotations x "
             "marker position), port termination last; (b) the translator's loop sub-graph under the executor for "
             "0/1/3/11 iterations, scattered instances with different counts, job bodies; x deviations up to the bound",
        assumptions=_exec.ENV_ASSUMPTIONS + [
            "the loop output step's input port is terminated after every iteration token and marker (holds for the "
            "translator's wiring: the forwarder terminates the port only after the conditional step put the marker)"],
        args=args, samples=[cases[0], cases[5], cases[-1]], time_cap=280 if args.tier == "quick" else 1500)


if __name__ == "__main__":
    sys.exit(main())
