"""C07 -- recorded provenance is complete and acyclic (evaluated on the SQLite tables after every run)."""
from __future__ import annotations

import sys

from checks import _exec
from mc import runner, wfkit
from mc.explore import Outcome

from streamflow.workflow.port import ConnectorPort, JobPort
from streamflow.workflow.step import (
    CombinatorStep,
    DeployStep,
    ExecuteStep,
    GatherStep,
    LoopCombinatorStep,
    LoopOutputStep,
    ScatterStep,
    ScheduleStep,
    TransferStep,
)
from streamflow.workflow.combinator import CartesianProductCombinator, LoopTerminationCombinator
from streamflow.workflow.token import IterationTerminationToken, JobToken, TerminationToken

PROP = "C07"


def worker_init():
    wfkit.quiet_logging()
    wfkit.patch_port_put()


def _comp(tag):
    return tag.split(".")


def _is_prefix(a, b):
    """tag a is b or an ancestor of b (component-wise)"""
    ca, cb = _comp(a), _comp(b)
    return cb[: len(ca)] == ca


def expected_dependees(step, tok, out_port, on_port):
    """Reference: ids of the tokens the produced token must depend on.  ``on_port[port_name]`` = list of
    (id, tag, token) currently on that port.  Returns (set_of_ids, exact: bool)."""
    exp, exact = set(), True
    ins = {n: p for n, p in step.get_input_ports().items()}
    tag = tok.tag

    def toks(port):
        return [(i, tg, t) for (i, tg, t) in on_port.get(port.name, [])
                if not isinstance(t, TerminationToken)]

    if isinstance(step, ScatterStep):
        for _, p in ins.items():
            want = tag if out_port.name == step.get_size_port().name else ".".join(_comp(tag)[:-1])
            exp |= {i for i, tg, _ in toks(p) if tg == want}
    elif isinstance(step, GatherStep):
        for n, p in ins.items():
            if n == "__size__":
                exp |= {i for i, tg, _ in toks(p) if tg == tag}
            else:
                exp |= {i for i, tg, _ in toks(p) if ".".join(_comp(tg)[: -step.depth]) == tag}
    elif isinstance(step, LoopCombinatorStep):
        c = _comp(tag)
        want = ".".join(c[:-1]) if c[-1] == "0" else ".".join(c[:-1] + [str(int(c[-1]) - 1)])
        for _, p in ins.items():
            exp |= {i for i, tg, t in toks(p) if tg == want and not isinstance(t, IterationTerminationToken)}
    elif isinstance(step, CombinatorStep) and isinstance(step.combinator, CartesianProductCombinator) \
            and not step.combinator.combinators:
        items = list(step.combinator.items)
        c = _comp(tag)
        prefix, suffix = c[: len(c) - len(items)], c[len(c) - len(items):]
        for n, p in ins.items():
            want = ".".join(prefix + [suffix[items.index(n)]])
            exp |= {i for i, tg, _ in toks(p) if tg == want}
    elif isinstance(step, CombinatorStep):
        exact = not isinstance(step.combinator, (CartesianProductCombinator, LoopTerminationCombinator))
        for _, p in ins.items():
            cands = [(i, tg) for i, tg, _ in toks(p) if _is_prefix(tg, tag)]
            if cands:
                exp.add(max(cands, key=lambda x: len(_comp(x[1])))[0])
    elif isinstance(step, LoopOutputStep):
        for _, p in ins.items():
            exp |= {i for i, tg, t in toks(p)
                    if ".".join(_comp(tg)[:-1]) == tag and not isinstance(t, IterationTerminationToken)}
    elif isinstance(step, DeployStep):
        pass
    elif isinstance(step, ScheduleStep):
        for n, p in ins.items():
            if isinstance(p, ConnectorPort):
                exp |= {i for i, _, _ in toks(p)}
            else:
                exp |= {i for i, tg, _ in toks(p) if tg == tag}
    else:  # transformers, conditional, transfer, execute, injector: same-tag inputs (+ job token)
        for n, p in ins.items():
            if isinstance(p, ConnectorPort):
                continue
            if isinstance(p, JobPort):
                exp |= {i for i, tg, t in toks(p) if isinstance(t, JobToken) and tg == tag}
            else:
                exp |= {i for i, tg, _ in toks(p) if tg == tag}
    return exp, exact


@_exec.observer("provenance")
async def observe_provenance(loop, res):
    wf = res["wf"]
    db = wfkit.raw_db()
    rows = {r[0]: (r[1], r[2], r[3]) for r in db.execute("SELECT id, port, tag, type FROM token")}
    prov = [(r[0], r[1]) for r in db.execute("SELECT dependee, depender FROM provenance")]
    problems = []
    on_port = {}
    tok_port = {}
    for pn, port in wf.ports.items():
        lst = []
        for t in port.token_list:
            if isinstance(t, TerminationToken):
                continue
            if t.persistent_id is None:
                if isinstance(t, IterationTerminationToken):
                    continue  # control marker put by the loop conditional on its skip ports
                problems.append(("unpersisted", f"token tag={t.tag} {type(t).__name__} on port {pn} has no persistent id"))
                continue
            lst.append((t.persistent_id, t.tag, t))
            tok_port[t.persistent_id] = pn
            row = rows.get(t.persistent_id)
            if row is None:
                problems.append(("norow", f"token id {t.persistent_id} on port {pn} has no row in table token"))
            elif row[0] != port.persistent_id:
                problems.append(("wrongport", f"token id {t.persistent_id} is on port {pn} (id {port.persistent_id}) but its row says port {row[0]}"))
            elif row[1] != t.tag:
                problems.append(("wrongtag", f"token id {t.persistent_id} tag {t.tag} but row tag {row[1]}"))
        on_port[pn] = lst
    # (2) order and acyclicity
    for a, b in prov:
        if not a < b:
            problems.append(("order", f"provenance edge dependee {a} !< depender {b}"))
    deps = {}
    for a, b in prov:
        deps.setdefault(b, set()).add(a)
    # cycle check (independent of id order)
    color = {}

    def dfs(u):
        color[u] = 1
        for v in deps.get(u, ()):
            if color.get(v) == 1:
                return True
            if v not in color and dfs(v):
                return True
        color[u] = 2
        return False

    for u in list(deps):
        if u not in color and dfs(u):
            problems.append(("cycle", f"provenance relation has a cycle through {u}"))
            break
    # (3)+(4) per produced token
    producers = {}
    for s in wf.steps.values():
        for n, p in s.get_output_ports().items():
            producers.setdefault(p.name, []).append(s)
        if hasattr(s, "get_skip_ports"):
            for n, p in s.get_skip_ports().items():
                producers.setdefault(p.name, []).append(s)
    checked = 0
    for pn, lst in on_port.items():
        for tid, tag, tok in lst:
            steps = producers.get(pn, [])
            if not steps:
                continue  # workflow input port
            got = deps.get(tid, set())
            verdicts = []
            for s in steps:
                in_names = {p.name for p in s.get_input_ports().values()}
                unsound = {d for d in got if tok_port.get(d) not in in_names}
                exp, exact = expected_dependees(s, tok, wf.ports[pn], on_port)
                missing = exp - got
                extra = (got - exp) if exact else set()
                verdicts.append((s.name, unsound, missing, extra))
            if not any(not u and not m and not e for _, u, m, e in verdicts):
                sname, u, m, e = min(verdicts, key=lambda v: len(v[1]) + len(v[2]) + len(v[3]))
                kind = "unsound" if u else ("incomplete" if m else "extra")
                problems.append((f"{kind}:{type(steps[0]).__name__}",
                                 f"token id {tid} tag {tag} on port {pn} produced by {sname}: recorded dependees {sorted(got)}; "
                                 f"not on an input port: {sorted(u)}; missing: {sorted(m)}; unexpected: {sorted(e)}"))
            checked += 1
    res["prov_problems"] = problems
    res["prov_checked"] = checked
    res["prov_edges"] = len(prov)


def run_case(params, prefix):
    params = dict(params, observe=["provenance"])
    ex, res = _exec.run_once(params, prefix)
    fails = []
    base = f"C07|{_exec.spec_key(params['spec'])}"
    if ex.hang:
        fails.append((base + "|hang", f"{ex.pending}"))
    elif ex.error:
        fails.append((base + "|error", f"{ex.error}"))
    else:
        for kind, msg in res.get("prov_problems", []):
            fails.append((f"{base}|{kind}", msg))
    obs = (res.get("prov_checked"), res.get("prov_edges"))
    _exec.clean_res(res)
    return Outcome(ex.trace, fails[:5], obs=obs, steps=ex.steps, states=ex.states, signature=ex.signature)


def cases_for(tier):
    return [_exec.case_of_light(s) for s in _exec.catalogue(tier)]


def main(argv=None):
    args = runner.tier_args(argv)
    worker_init()
    if args.replay:
        return _exec.replay_main(PROP, sys.modules[__name__], args.replay)
    cases = cases_for(args.tier)
    bound = 1 if args.tier == "quick" else 2
    return _exec.generic_main(
        PROP, sys.modules[__name__], "model_checking", cases, bound,
        {i: c["bound"] for i, c in enumerate(cases) if "bound" in c},
        rule="catalogue programs x all schedules within the deviation bound; after each execution the token and "
             "provenance tables are read through raw sqlite3 and compared with a per-step-class reference of the "
             "dependee set (exact for all classes except cartesian/loop-termination combinators: soundness + one per "
             "port); distinct = distinct ordered event logs",
        assumptions=_exec.ENV_ASSUMPTIONS + [
            "control markers (TerminationToken, unpersisted IterationTerminationToken on loop skip ports) are not "
            "'tokens a step computes' and are excluded"],
        args=args, time_cap=280 if args.tier == "quick" else 1500)


if __name__ == "__main__":
    sys.exit(main())
