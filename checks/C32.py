"""C32 -- remapping CWL file values between directories is lossless (bounded-exhaustive)."""
from __future__ import annotations

import copy
import itertools
import posixpath
import sys
import urllib.parse

from mc import enumr, runner
from mc.enumr import ChunkResult

from streamflow.cwl.utils import remap_path, remap_token_value

PROP = "C32"

DIRS = ["/a", "/a/b", "/tmp/x y", "/ü"]
NAMES = {
    "plain": ["f.txt", "d/e.txt"],
    "space": ["a b.txt", " lead", "trail "],
    "percent-escape": ["a%20b", "x%2Fy", "%41"],
    "percent-literal": ["100%", "a%zz", "%"],
    "hash": ["a#b", "#"],
    "question": ["a?b=c"],
    "unicode": ["ü.txt", "日本"],
    "quote": ["it's", 'q"q'],
    "plus-amp": ["a+b&c"],
    "dotdot-free": ["..x", "x..y"],
}


def forms(olddir, name):
    p = posixpath.join(olddir, name)
    return {
        "path": {"class": "File", "path": p},
        "location-raw": {"class": "File", "location": "file://" + p},
        "location-quoted": {"class": "File", "location": "file://" + urllib.parse.quote(p)},
        "both": {"class": "File", "path": p, "location": "file://" + urllib.parse.quote(p)},
        "dir-path": {"class": "Directory", "path": p},
    }


def under(path, d):
    if path.startswith("file://"):
        path = urllib.parse.unquote(path[7:])
    return path == d or path.startswith(d.rstrip("/") + "/")


def _leaves(a, b, out):
    if isinstance(a, list) and isinstance(b, list) and len(a) == len(b):
        for x, y in zip(a, b):
            _leaves(x, y, out)
    elif isinstance(a, dict) and isinstance(b, dict) and set(a) == set(b):
        for k in a:
            _leaves(a[k], b[k], out)
    elif a != b:
        out.append((a, b))


def classify(orig, back):
    """Name the two recorded causes exactly; anything else stays unclassified (=> fresh violation)."""
    diffs = []
    _leaves(orig, back, diffs)
    if not diffs or not all(isinstance(a, str) and isinstance(b, str) for a, b in diffs):
        return None
    def dec(x, n):
        for _ in range(n):
            x = urllib.parse.unquote(x)
        return x

    if all(a.startswith("file://") and b.startswith("file://") and b != a and
           b[7:] in (dec(a[7:], 1), dec(a[7:], 2)) for a, b in diffs):
        return "percent-encoded-file-location-comes-back-decoded"
    if all((":/" not in a and b in (dec(a, 1), dec(a, 2)) and b != a) or
           (a.startswith("file://") and b.startswith("file://") and b != a and b[7:] in (dec(a[7:], 1), dec(a[7:], 2)))
           for a, b in diffs) and any(":/" not in a for a, _ in diffs):
        return "percent-escape-in-plain-path-decoded"
    return None


def check_value(v, old, new, key, fails, payload):
    orig = copy.deepcopy(v)
    there = remap_token_value(posixpath, old, new, copy.deepcopy(v))
    back = remap_token_value(posixpath, new, old, copy.deepcopy(there))
    if back != orig:
        cause = classify(orig, back)
        k = f"C32|roundtrip|cause={cause}" if cause else f"C32|roundtrip|{key}"
        fails.append((k, f"remap {old}->{new}->{old} of {orig!r} gives {back!r} (via {there!r})", payload))

    def walk(x):
        if isinstance(x, list):
            for y in x:
                walk(y)
        elif isinstance(x, dict):
            if x.get("class") in ("File", "Directory"):
                for k in ("path", "location"):
                    if k in x and (":/" not in x[k] or x[k].startswith("file://")) and not under(x[k], new):
                        fails.append((f"C32|not-under-new|{key}", f"remapped {k} {x[k]!r} is not under {new!r} (from {orig!r})", payload))
                for y in x.get("secondaryFiles", []) + x.get("listing", []):
                    walk(y)
            else:
                for y in x.values():
                    walk(y)

    walk(there)


def check_chunk(chunk):
    fails, n, distinct = [], 0, set()
    for old, new, cls, name in chunk["items"]:
        for form, v in forms(old, name).items():
            key = f"form={form}|name={cls}"
            payload = {"old": old, "new": new, "class": cls, "name": name, "form": form}
            n += 1
            check_value(v, old, new, key, fails, payload)
            distinct.add((form, cls, old, new))
            # nesting: secondaryFiles, listing, arrays, records (depth 3)
            if form in ("path", "location-quoted"):
                sib = forms(old, "s.idx")["path"]
                nested = [
                    {"class": "File", **{k: v[k] for k in v if k != "class"}, "secondaryFiles": [copy.deepcopy(sib), copy.deepcopy(v)]},
                    {"class": "Directory", "path": posixpath.join(old, "dd"), "listing": [copy.deepcopy(v), {"class": "Directory", "path": posixpath.join(old, "dd", "in"), "listing": [copy.deepcopy(v)]}]},
                    [copy.deepcopy(v), 3, "str", None],
                    {"rec": {"f": copy.deepcopy(v), "n": 1, "arr": [copy.deepcopy(v)]}},
                ]
                for i, nv in enumerate(nested):
                    n += 1
                    check_value(nv, old, new, key + f"|nest={i}", fails, dict(payload, nest=i))
        # other schemes and non-file values unchanged
        for other in ("http://h/x/" + name, "s3://b/" + name):
            n += 1
            v = {"class": "File", "location": other}
            got = remap_token_value(posixpath, old, new, copy.deepcopy(v))
            if got != v:
                fails.append((f"C32|other-scheme|name={cls}", f"{v!r} changed to {got!r}", {"old": old, "new": new, "value": v}))
        for v in (5, "plain " + name, None, True, {"a": name}, [name]):
            n += 1
            got = remap_token_value(posixpath, old, new, copy.deepcopy(v))
            if got != v:
                fails.append((f"C32|non-file|name={cls}", f"{v!r} changed to {got!r}", {"old": old, "new": new, "value": v}))
    dedup = {}
    for k, m, p in fails:
        dedup.setdefault(k, (k, m, p))
    return ChunkResult(n, distinct, list(dedup.values()), samples=[list(chunk["items"][0])])


def main(argv=None):
    args = runner.tier_args(argv)
    if args.replay:
        import json

        p = json.load(open(args.replay))["replay"]
        fails = []
        if "name" in p:
            r = check_chunk({"items": [(p["old"], p["new"], p["class"], p["name"])]})
            fails = r.failures
        for k, m, _ in fails:
            print(f"VIOLATION property={PROP} replay={args.replay}\n  {k}: {m}")
        return 1 if fails else 0
    rep = runner.Report(PROP, args.tier, "exploration", runner.seed())
    items = []
    for old, new in itertools.permutations(DIRS, 2):
        for cls, names in NAMES.items():
            for nme in (names if args.tier == "thorough" else names[:2]):
                items.append((old, new, cls, nme))
    if args.tier == "thorough":
        # names made of two hostile fragments, alone and below a hostile sub-directory
        frags = [(c, n) for c, ns in NAMES.items() for n in ns[:2] if "/" not in n]
        for old, new in (("/a", "/tmp/x y"), ("/a/b", "/a"), ("/ü", "/a/b")):
            for (c1, n1), (c2, n2) in itertools.product(frags, repeat=2):
                items.append((old, new, f"{c1}+{c2}", n1 + n2))
                items.append((old, new, f"{c1}/{c2}", n1 + "/" + n2))
    chunks = [{"items": items[i:i + 16]} for i in range(0, len(items), 16)]
    enumr.run_enum(rep, f"checks.{PROP}", chunks, workers=args.workers)
    rep.coverage["rule"] = (
        "all ordered pairs of old/new directories from {/a, /a/b, '/tmp/x y', '/ü'} x file names from 10 hostile "
        "classes (thorough: also every ordered pair of fragments concatenated and as directory/file, 3 directory pairs) x forms {path, file:// raw, file:// percent-encoded, path+location, Directory} x nesting through "
        "secondaryFiles, listing (depth 2), arrays, records; other URL schemes and non-file values; oracle: "
        "remap there-and-back == original (deep copies), remapped paths under the new directory; distinct = "
        "distinct (form, name class, old, new)")
    rep.assumptions = ["posixpath processor (remote and local Linux locations)"]
    return rep.finish()


if __name__ == "__main__":
    sys.exit(main())
