"""C27 -- batch jobs complete only after leaving the queue.

E1: real SlurmConnector (QueueManagerConnector.run / undeploy, cached _get_running_jobs) over an in-process
fake Slurm host; submissions, polls, job finishes and polling timers interleave under the controller."""
from __future__ import annotations

import asyncio
import re
import sys

from checks import _exec
from mc import runner, wfkit
from mc.env import fakes
from mc.explore import Outcome
from mc.loop import execute

from streamflow.core.deployment import Connector, ExecutionLocation
from streamflow.core.scheduling import AvailableLocation
from streamflow.deployment.connector.queue_manager import FluxConnector, PBSConnector, SlurmConnector

CONNECTORS = {"slurm": SlurmConnector, "pbs": PBSConnector, "flux": FluxConnector}

PROP = "C27"


def worker_init():
    wfkit.quiet_logging()


class VirtualTTLCache(dict):
    """dict with a TTL on the controlled loop's clock (cachebox.TTLCache reads the OS clock from Rust)."""

    def __init__(self, ttl):
        super().__init__()
        self.ttl = ttl

    def _now(self):
        return asyncio.get_event_loop().time()

    def __getitem__(self, key):
        v, exp = super().__getitem__(key)
        if self._now() >= exp:
            super().pop(key, None)
            raise KeyError(key)
        return v

    def __setitem__(self, key, value):
        super().__setitem__(key, (value, self._now() + self.ttl))

    def insert(self, key, value):
        self[key] = value

    def get(self, key, default=None):
        try:
            return self[key]
        except KeyError:
            return default

    def __contains__(self, key):
        try:
            self[key]
            return True
        except KeyError:
            return False

    def clear(self, reuse=False):
        super().clear()


class FakeSlurmHost(Connector):
    """The host a SlurmConnector wraps: answers exactly the command lines SlurmConnector emits."""

    def __init__(self, gated=True):
        super().__init__("host", "/", 65536)
        self.gated = gated
        self.next_id = 100
        self.queue = {}  # id -> state
        self.log = []  # ("submit"|"finish"|"cancel"|"squeue", ...)
        self.finish_tasks = []
        self.by_name = {}

    async def get_available_locations(self, service=None):
        return {"h0": AvailableLocation(name="h0", deployment="host", hostname="h0", slots=8)}

    async def _finisher(self, jid):
        await fakes.gate(f"finish:{jid}", prio=1)  # by default a job outlives the commands around it
        if self.queue.get(jid) == "RUNNING":
            self.queue[jid] = "DONE"
            self.log.append(("finish", jid))
            fakes.log_event(("finish", jid))

    async def run(self, location, command, environment=None, workdir=None, stdin=None, stdout=None, stderr=None,
                  capture_output=False, timeout=None, job_name=None):
        cmd = " ".join(command)
        if "sbatch" in cmd:
            jid = str(self.next_id)
            self.next_id += 1
            self.queue[jid] = "RUNNING"
            self.log.append(("submit", jid))
            fakes.log_event(("submit", jid))
            self.finish_tasks.append(asyncio.create_task(self._finisher(jid), name=f"finisher{jid}"))
            if self.gated:
                await fakes.gate(f"cmd:sbatch:{jid}")
            return (jid + "\n", 0)
        if cmd.startswith("squeue"):
            m = re.search(r"-j (\S*)", cmd)
            asked = [x for x in (m.group(1).split(",") if m else []) if x]
            # the command runs now; its reply may be delivered later (stale by then)
            alive = [j for j in asked if self.queue.get(j) == "RUNNING"]
            self.log.append(("squeue", tuple(asked), tuple(alive)))
            if self.gated:
                await fakes.gate("cmd:squeue")
            return ("\n".join(alive) + ("\n" if alive else ""), 0)
        if cmd.startswith("scontrol show -o job"):
            jid = cmd.split()[4]
            if self.gated:
                await fakes.gate(f"cmd:scontrol:{jid}")
            if "StdOut" in cmd:
                return (f"/out/{jid}\n", 0)
            return (f"{int(jid) % 3}\n", 0)
        if cmd.startswith("cat /out/"):
            jid = cmd.split("/")[-1]
            if self.gated:
                await fakes.gate(f"cmd:cat:{jid}")
            return (f"out-{jid}\n", 0)
        if cmd.startswith("scancel"):
            ids = cmd.split()[1:]
            self.log.append(("cancel", tuple(ids)))
            for j in ids:
                if self.queue.get(j) == "RUNNING":
                    self.queue[j] = "CANCELLED"
            if self.gated:
                await fakes.gate("cmd:scancel")
            return None
        # ---- PBS dialect ---------------------------------------------------------------------
        if "qsub" in cmd:
            jid = self._submit()
            if self.gated:
                await fakes.gate(f"cmd:sbatch:{jid}")
            return (jid + "\n", 0)
        if cmd.startswith("qstat"):
            asked = [x for x in cmd.split()[1:] if not x.startswith("-")]
            alive = [j for j in asked if self.queue.get(j) == "RUNNING"]
            self.log.append(("squeue", tuple(asked), tuple(alive)))
            reply = {"Jobs": {j: {"job_state": "R" if self.queue[j] == "RUNNING" else "F", "Output_Path": f"h0:/out/{j}",
                                  "Exit_status": int(j) % 3} for j in asked if j in self.queue}}
            if self.gated:
                await fakes.gate("cmd:squeue" if len(asked) != 1 else f"cmd:qstat:{asked[0]}")
            import json as _json

            return (_json.dumps(reply) + "\n", 0)
        if cmd.startswith("qdel"):
            return await self._cancel(cmd.split()[1:])
        # ---- Flux dialect --------------------------------------------------------------------
        if "flux batch" in cmd:
            jid = self._submit()
            if self.gated:
                await fakes.gate(f"cmd:sbatch:{jid}")
            return (jid + "\n", 0)
        if cmd.startswith("flux jobs") and "--filter=pending,running" in cmd:
            alive = [j for j, st in self.queue.items() if st == "RUNNING"]
            self.log.append(("squeue", ("*",), tuple(alive)))
            if self.gated:
                await fakes.gate("cmd:squeue")
            return ("\n".join(alive) + ("\n" if alive else ""), 0)
        if cmd.startswith("flux jobs") and "{returncode}" in cmd:
            jid = cmd.split()[-1]
            if self.gated:
                await fakes.gate(f"cmd:scontrol:{jid}")
            return (f"{int(jid) % 3}\n", 0)
        if cmd.startswith("flux job attach"):
            jid = cmd.split()[-1]
            if self.gated:
                await fakes.gate(f"cmd:attach:{jid}")
            return (f"/out/{jid}\n", 0)
        if cmd.startswith("flux job cancel"):
            return await self._cancel(cmd.split()[3:])
        return ("", 0) if capture_output else None

    def _submit(self):
        jid = str(self.next_id)
        self.next_id += 1
        self.queue[jid] = "RUNNING"
        self.log.append(("submit", jid))
        fakes.log_event(("submit", jid))
        self.finish_tasks.append(asyncio.create_task(self._finisher(jid), name=f"finisher{jid}"))
        return jid

    async def _cancel(self, ids):
        self.log.append(("cancel", tuple(ids)))
        for j in ids:
            if self.queue.get(j) == "RUNNING":
                self.queue[j] = "CANCELLED"
        if self.gated:
            await fakes.gate("cmd:scancel")
        return None

    async def deploy(self, external):
        pass

    async def undeploy(self, external):
        pass

    async def copy_local_to_remote(self, *a, **k):
        pass

    async def copy_remote_to_local(self, *a, **k):
        pass

    async def copy_remote_to_remote(self, *a, **k):
        pass

    async def get_shell(self, command, location):
        raise NotImplementedError

    async def get_stream_reader(self, command, location):
        raise NotImplementedError

    async def get_stream_writer(self, command, location):
        raise NotImplementedError

    @classmethod
    def get_schema(cls):
        return "{}"


async def _main(loop, params, res):
    loop.mute = True
    host = FakeSlurmHost(gated=True)
    dialect = params.get("dialect", "slurm")
    conn = CONNECTORS[dialect](dialect, "/", connector=host, service=None, maxConcurrentJobs=8,
                               pollingInterval=params.get("poll", 5), services={"svc": {}} if dialect == "pbs" else None)
    conn._jobs_cache = VirtualTTLCache(conn.pollingInterval)
    locs = await conn.get_available_locations(service="svc" if dialect == "pbs" else None)
    loc = next(iter(locs.values())).location
    n = params["jobs"]
    results = [None] * n
    returned_at = {}
    requests = [("run", i) for i in range(n)] + ([("undeploy",)] if params.get("undeploy") else [])

    async def do_run(i):
        try:
            out = await conn.run(loc, ["echo", str(i)], job_name=f"job{i}")
            results[i] = ("ok", out)
        except Exception as e:  # noqa
            results[i] = ("raised", f"{type(e).__name__}: {e}")
        host.log.append(("returned", i))

    undeploy_snapshot = {}

    async def do_undeploy():
        undeploy_snapshot["scheduled"] = sorted(conn._scheduled_jobs)
        try:
            await conn.undeploy(False)
            undeploy_snapshot["ok"] = True
        except Exception as e:  # noqa
            undeploy_snapshot["error"] = f"{type(e).__name__}: {e}"

    loop.mute = False
    tasks = []
    remaining = list(range(len(requests)))
    made = []
    while remaining:
        c = loop.ctl.choose(len(remaining), ("req", len(remaining)), free=True)
        r = requests[remaining.pop(c)]
        made.append(r)
        tasks.append(asyncio.create_task(do_run(r[1]) if r[0] == "run" else do_undeploy(), name=str(r)))
        await loop.gate("driver", prio=1)
    await asyncio.gather(*tasks)
    loop.mute = True
    res["results"] = results
    res["log"] = list(host.log)
    res["made"] = made
    res["undeploy"] = undeploy_snapshot
    res["left_scheduled"] = sorted(conn._scheduled_jobs)
    for t in host.finish_tasks:
        if not t.done():
            t.cancel()


def judge(params, ex, res):
    base = (f"C27|jobs={params['jobs']}|undeploy={bool(params.get('undeploy'))}|poll={params.get('poll', 5)}" +
            (f"|{params['dialect']}" if params.get("dialect", "slurm") != "slurm" else ""))
    if ex.error:
        return [(base + "|harness", f"{ex.error}")]
    if ex.hang:
        return [(base + "|hang", f"run() never returns: {ex.pending}; issued {res.get('made')}")]
    fails = []
    log = res["log"]
    # job index -> id: submissions happen in the order the run() calls reach sbatch; recover it from outputs
    pos = {e: i for i, e in enumerate(log)}
    submit_order = [e[1] for e in log if e[0] == "submit"]
    for i, r in enumerate(res["results"]):
        if r is None:
            fails.append((base + "|no-result", f"run() of job {i} produced no result"))
            continue
        if r[0] != "ok":
            # a run() that races with undeploy() has no specified result (today: KeyError from _scheduled_jobs.pop)
            if not params.get("undeploy"):
                fails.append((base + "|raised", f"run() of job {i} raised {r[1]}; log {log}"))
            continue
        out, code = r[1]
        m = re.match(r"out-(\d+)$", out or "")
        if not m:
            fails.append((base + "|output", f"run() of job {i} returned output {out!r}; log {log}"))
            continue
        jid = m.group(1)
        if code != int(jid) % 3:
            fails.append((base + "|exitcode", f"job {i} (id {jid}) returned exit code {code}, the queue says {int(jid) % 3}"))
        ret = next(p for p, e in enumerate(log) if e == ("returned", i))
        left = [p for p, e in enumerate(log) if e in (("finish", jid),) or (e[0] == "cancel" and jid in e[1])]
        if not left or min(left) > ret:
            fails.append((base + "|finished-early", f"run() of job {i} (id {jid}) returned while the job was still queued; "
                                                    f"issued {res['made']}; log {log}"))
    ids = [re.match(r"out-(\d+)$", r[1][0]).group(1) for r in res["results"] if r and r[0] == "ok" and re.match(r"out-(\d+)$", r[1][0] or "")]
    if len(set(ids)) != len(ids):
        fails.append((base + "|mixed-up", f"two run() calls returned the same job's output: {res['results']}"))
    if params.get("undeploy"):
        cancels = [e[1] for e in log if e[0] == "cancel"]
        cancelled = sorted(j for c in cancels for j in c)
        want = res["undeploy"].get("scheduled", [])
        if "error" in res["undeploy"]:
            fails.append((base + "|undeploy-raises", res["undeploy"]["error"]))
        elif cancelled != want:
            fails.append((base + "|cancel-set", f"undeploy cancelled {cancelled} but the jobs submitted and not yet returned "
                                                f"were {want}; log {log}"))
    return fails[:3]


def run_case(params, prefix):
    res = {}
    ex = execute(lambda loop: _main(loop, params, res), prefix, idle_only=bool(params.get("idle_only")))
    fails = judge(params, ex, res)
    obs = (str(res.get("results")), tuple(e for e in res.get("log", []) if e[0] in ("submit", "finish", "cancel", "returned")))
    return Outcome(ex.trace, fails, obs=hash(obs), steps=ex.steps, states=ex.states, signature=ex.signature)


def cases_for(tier):
    q = tier == "quick"
    out = []
    for n in ((1, 2) if q else (1, 2, 3)):
        for poll in (1, 5):
            out.append({"jobs": n, "poll": poll, "bound": (2 if n == 1 else 1) if q else 2})
            out.append({"jobs": n, "poll": poll, "idle_only": True, "bound": (3 if n <= 2 else 2) if q else (4 if n <= 2 else 3)})
        out.append({"jobs": n, "poll": 5, "undeploy": True, "bound": 1})
        out.append({"jobs": n, "poll": 5, "undeploy": True, "idle_only": True, "bound": 2 if q else 3})
    # the PBS and Flux dialects share run()/undeploy() with Slurm and differ in how they read the queue
    for d in ("pbs", "flux"):
        for n in ((1, 2) if q else (1, 2, 3)):
            out.append({"jobs": n, "poll": 5, "dialect": d, "bound": 1 if q else 2})
            out.append({"jobs": n, "poll": 1, "dialect": d, "idle_only": True, "bound": 2 if q else 3})
            out.append({"jobs": n, "poll": 5, "undeploy": True, "dialect": d, "idle_only": True, "bound": 2 if q else 3})
    if not q:
        out.append({"jobs": 4, "poll": 5, "idle_only": True, "bound": 2})
    else:
        out.append({"jobs": 3, "poll": 5, "idle_only": True, "bound": 2})
    return out


def main(argv=None):
    args = runner.tier_args(argv)
    worker_init()
    if args.replay:
        return _exec.replay_main(PROP, sys.modules[__name__], args.replay)
    cases = cases_for(args.tier)
    cb = {i: c["bound"] for i, c in enumerate(cases)}
    return _exec.generic_main(
        PROP, sys.modules[__name__], "model_checking", cases, 1, cb,
        rule="1..3 (4) concurrent SlurmConnector.run(job_name=...) calls (+ an undeploy request) issued in every order "
             "(free choices) and overlapped (driver deviations); each sbatch/squeue/scontrol/cat/scancel reply and each "
             "job's finish is a free gate, polling sleeps are virtual timers that may fire early or late; the jobs cache "
             "is a TTL dict on the virtual clock; squeue replies are computed when the command runs and may be stale "
             "when delivered; deeper bounds in the idle-only sub-space",
        assumptions=["fake Slurm host answers exactly the command lines SlurmConnector emits; QueueManagerConnector.run/"
                     "undeploy, the cached _get_running_jobs and cachebox's own locking are the real code",
                     "VirtualTTLCache replaces cachebox.TTLCache (Rust clock) with the same expiry rule on the virtual clock"],
        args=args, time_cap=280 if args.tier == "quick" else 1500)


if __name__ == "__main__":
    sys.exit(main())
