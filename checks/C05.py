"""C05 -- workflow results do not depend on the interleaving (differential across schedules + reference)."""
from __future__ import annotations

import sys

from checks import _exec
from mc import runner, wfkit
from mc.explore import Outcome

PROP = "C05"


def worker_init():
    wfkit.quiet_logging()
    wfkit.patch_port_put()


def canon_outputs(res):
    """set of (tag, value) per workflow output port + run() return value"""
    outs = {n: tuple(sorted((t[1], repr(t[2])) for t in dump if t[0] != "TerminationToken"))
            for n, dump in res.get("outputs", {}).items()}
    return (repr(res.get("ret")), tuple(sorted(outs.items())))


_default_cache = {}


def run_case(params, prefix):
    ex, res = _exec.run_once(params, prefix)
    fails = []
    base = f"C05|{_exec.spec_key(params['spec'])}"
    key = _exec.spec_key(params["spec"])
    if ex.hang:
        fails.append((base + "|hang", f"hang: {ex.pending}"))
        canon = None
    elif ex.error or res.get("raised"):
        fails.append((base + "|error", f"{ex.error or res.get('raised')}"))
        canon = None
    else:
        canon = canon_outputs(res)
        if res.get("ret") != res["expected"]:
            fails.append((base + "|reference", f"run() returned {res.get('ret')} but the reference predicts {res['expected']}"))
        # differential against the default schedule of the same program (computed once per worker)
        if key not in _default_cache:
            ex0, res0 = _exec.run_once(params, [])
            _default_cache[key] = canon_outputs(res0)
            _exec.clean_res(res0)
        if canon != _default_cache[key]:
            fails.append((base + "|schedule-dependent",
                          f"outputs under this schedule {canon} differ from the default schedule {_default_cache[key]}"))
    _exec.clean_res(res)
    return Outcome(ex.trace, fails, obs=hash(canon), steps=ex.steps, states=ex.states, signature=ex.signature)


def cases_for(tier):
    return [_exec.case_of_light(s) for s in _exec.catalogue(tier)]


def main(argv=None):
    args = runner.tier_args(argv)
    worker_init()
    if args.replay:
        return _exec.replay_main(PROP, sys.modules[__name__], args.replay)
    cases = cases_for(args.tier)
    bound = 1 if args.tier == "quick" else 2
    return _exec.generic_main(
        PROP, sys.modules[__name__], "model_checking", cases, bound,
        {i: c["bound"] for i, c in enumerate(cases) if "bound" in c},
        rule="fault-free catalogue programs x all schedules within the deviation bound (db replies, job completion "
             "order, asyncio.wait orders); oracle: outputs identical to the default schedule AND to the reference "
             "function; distinct = distinct ordered event logs",
        assumptions=_exec.ENV_ASSUMPTIONS, args=args, time_cap=280 if args.tier == "quick" else 1500)


if __name__ == "__main__":
    sys.exit(main())
