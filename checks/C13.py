"""C13 -- jobs go to the first admissible declared target (bounded-exhaustive over binding configurations)."""
from __future__ import annotations

import asyncio
import itertools
import sys
from types import SimpleNamespace

from mc import enumr, runner, wfkit
from mc.enumr import ChunkResult
from mc.env.fakes import FakeConnector, FakeDataManager, FakeDeploymentManager

from streamflow.core.config import BindingConfig
from streamflow.core.deployment import BindingFilter, DeploymentConfig, FilterConfig, Target
from streamflow.core.exception import WorkflowExecutionException
from streamflow.core.workflow import Job, Status, Token
from streamflow.deployment.filter import binding_filter_classes
from streamflow.scheduling.scheduler import DefaultScheduler

PROP = "C13"


class PassFilter(BindingFilter):
    async def get_targets(self, job, targets):
        return list(targets)

    @classmethod
    def get_schema(cls):
        return "{}"


binding_filter_classes["verif_pass"] = PassFilter

POOL = [("dA", None), ("dB", None), ("dC", None), ("dA", "s1"), ("dB", "s1")]

# matching filters: list of rules (deployment, service|None, predicates)
FILTERS = {
    "none": [],
    "pass": [("verif_pass", None)],
    "m_x": [("matching", [("dA", None, {"x": "a"}), ("dB", None, {"x": "b"}), ("dC", None, {"x": "a"})])],
    "m_svc": [("matching", [("dA", "s1", {"x": "a"}), ("dB", None, {}), ("dC", None, {"y": "7"})])],
    "m_two_preds": [("matching", [("dA", None, {"x": "a", "y": "7"}), ("dB", None, {"x": "a", "y": "8"}),
                                  ("dC", None, {"y": "7"})])],
    "m_or": [("matching", [("dA", None, {"x": "b"}), ("dA", None, {"y": "7"}), ("dB", "s1", {"x": "a"})])],
    "chain_m_m": [("matching", [("dA", None, {}), ("dB", None, {}), ("dC", None, {})]),
                  ("matching", [("dB", None, {"x": "a"}), ("dC", None, {"x": "a"}), ("dA", "s1", {"x": "b"})])],
    # two matching filters that BOTH depend on the inputs: the second sees a different sub-list for different jobs
    "chain_mx_my": [("matching", [("dA", None, {"x": "a"}), ("dB", None, {"x": "b"}), ("dC", None, {})]),
                    ("matching", [("dA", None, {"y": "8"}), ("dB", None, {"y": "7"}), ("dC", None, {"y": "7"})])],
    "chain_mx_mx": [("matching", [("dA", None, {"x": "b"}), ("dB", None, {}), ("dC", None, {"x": "a"})]),
                    ("matching", [("dB", None, {"x": "a"}), ("dC", None, {}), ("dA", None, {"y": "7"})])],
    "chain_pass_m": [("verif_pass", None), ("matching", [("dA", None, {"x": "a"}), ("dC", None, {"x": "a"})])],
    "chain_m_pass": [("matching", [("dB", None, {"y": "7"}), ("dC", None, {"y": "7"})]), ("verif_pass", None)],
}
INPUTS = {"xa": {"x": "a", "y": 7}, "xb": {"x": "b", "y": 7}, "xa8": {"x": "a", "y": 8}}


def ref_survivors(targets, chain, inputs):
    cur = list(targets)
    for kind, rules in chain:
        if kind == "verif_pass":
            continue
        nxt = []
        for dep, svc in cur:
            ok = False
            for rdep, rsvc, preds in rules:
                if rdep != dep:
                    continue
                if rsvc is not None and rsvc != svc:
                    continue
                if all(str(inputs[p]) == m for p, m in preds.items()):
                    ok = True
                    break
            if ok:
                nxt.append((dep, svc))
        if not nxt:
            return None  # the filter raises
        cur = nxt
    return cur


async def run_one(targets, chain_name, in_name, blocked, gated=False, prev=None):
    connectors = {d: FakeConnector(d, locations={"l0": {"slots": 1}}, gated=gated) for d in ("dA", "dB", "dC")}
    ctx = SimpleNamespace(deployment_manager=FakeDeploymentManager(connectors), data_manager=FakeDataManager())
    sched = DefaultScheduler(ctx, retry_delay=0)
    dcfg = {d: DeploymentConfig(name=d, type="fake", config={}, lazy=False) for d in connectors}
    for d in blocked:
        bj = Job(name=f"/blk-{d}/0", workflow_id=1, inputs={}, input_directory="/i", output_directory="/o", tmp_directory="/t")
        await sched.schedule(bj, BindingConfig(targets=[Target(deployment=dcfg[d])]), None)
        await sched.notify_status(bj.name, Status.RUNNING)
    tobjs = [Target(deployment=dcfg[d], service=s) for d, s in targets]
    filters = []
    for i, (kind, rules) in enumerate(FILTERS[chain_name]):
        if kind == "verif_pass":
            filters.append(FilterConfig(name=f"f{i}", type="verif_pass", config={}))
        else:
            filters.append(FilterConfig(name=f"f{i}", type="matching", config={"filters": [
                {"target": ({"deployment": rd, "service": rs} if rs else rd),
                 "job": [{"port": p, "match": m} for p, m in preds.items()]} for rd, rs, preds in rules]}))
    if prev is not None:
        # history: an earlier job of the SAME step, with other input values, went through the same scheduler (and the same
        # filter instances) and has completed; the placement of the job under test must not depend on it
        pj = Job(name="/step/0", workflow_id=1, inputs={k: Token(v) for k, v in INPUTS[prev].items()}, input_directory="/i",
                 output_directory="/o", tmp_directory="/t")
        pt = asyncio.ensure_future(sched.schedule(pj, BindingConfig(targets=tobjs, filters=filters), None))
        for _ in range(60):
            await asyncio.sleep(0)
            if pt.done():
                break
        if not pt.done():
            pt.cancel()
            try:
                await pt
            except BaseException:  # noqa
                pass
        elif pt.exception() is None:
            await sched.notify_status(pj.name, Status.RUNNING)
            await sched.notify_status(pj.name, Status.COMPLETED)
    inputs = {k: Token(v) for k, v in INPUTS[in_name].items()}
    job = Job(name="/step/1" if prev is not None else "/step/0", workflow_id=1, inputs=inputs, input_directory="/i",
              output_directory="/o", tmp_directory="/t")
    loop = asyncio.get_running_loop()
    if gated:
        loop.mute = False
    task = asyncio.ensure_future(sched.schedule(job, BindingConfig(targets=tobjs, filters=filters), None))
    if gated:
        # controlled loop: the connectors' replies are gates; the loop itself runs to quiescence after main returns
        return lambda: _outcome(task, sched, job, tobjs)
    else:
        for _ in range(60):
            await asyncio.sleep(0)
            if task.done():
                break
    if not task.done():
        task.cancel()
        try:
            await task
        except BaseException:
            pass
        return ("pending", None)
    return _outcome(task, sched, job, tobjs)


def _outcome(task, sched, job, tobjs):
    if not task.done():
        return ("pending", None)
    if task.exception() is not None:
        return ("raised", type(task.exception()).__name__)
    alloc = sched.get_allocation(job.name)
    idx = next(i for i, t in enumerate(tobjs) if t is alloc.target)
    return ("placed", idx)


# ---- E1 part: the time each connector takes to list its locations is owned by the controller -------------------
def expected(targets, chain_name, in_name, blocked):
    surv = ref_survivors(targets, FILTERS[chain_name], INPUTS[in_name])
    if surv is None:
        return surv, ("raised", "WorkflowExecutionException")
    host = [t for t in surv if t[0] not in blocked]
    return surv, (("placed", targets.index(host[0])) if host else ("pending", None))


def run_case(params, prefix):
    from mc.explore import Outcome
    from mc.loop import execute

    targets = [tuple(t) for t in params["targets"]]
    blocked = set(params["blocked"])
    res = {}

    async def main(loop):
        loop.mute = True
        res["got"] = await run_one(targets, params["chain"], params["inputs"], blocked, gated=True)

    ex = execute(main, prefix)
    surv, want = expected(targets, params["chain"], params["inputs"], blocked)
    fails = []
    base = f"C13|latency|chain={params['chain']}"
    if callable(res.get("got")):
        res["got"] = res["got"]()
    if ex.error:
        fails.append((base + "|hang-or-error", f"{ex.error} {ex.pending[:4]} for {params}"))
    elif res["got"] != want:
        fails.append((base + "|wrong-target", f"targets (declared order) {targets}, filters {params['chain']}, inputs "
                      f"{INPUTS[params['inputs']]}, busy {sorted(blocked)}: got {res['got']}, expected {want} (survivors {surv}) "
                      f"when the connectors answer get_available_locations in a non-default order"))
    return Outcome(ex.trace, fails, obs=str(res.get("got")), steps=ex.steps, states=ex.states, signature=ex.signature)


def latency_cases(tier):
    pool = POOL[:3]
    out = []
    for k in (2, 3):
        for targets in itertools.permutations(pool, k):
            for chain in (("none", "m_x", "chain_pass_m") if tier == "quick" else tuple(FILTERS)):
                for inp in (("xa",) if tier == "quick" else tuple(INPUTS)):
                    for b in ([], ["dA"]) if tier == "quick" else ([], ["dA"], ["dB"], ["dA", "dB"]):
                        out.append({"targets": [list(t) for t in targets], "chain": chain, "inputs": inp, "blocked": b})
    return out


def check_chunk(chunk):
    wfkit.quiet_logging()
    fails, n, distinct = [], 0, set()
    loop = asyncio.new_event_loop()
    try:
        for item in chunk["items"]:
            targets, chain_name, in_name, blocked = item[:4]
            prev = item[4] if len(item) > 4 else None
            n += 1
            targets = [tuple(t) for t in targets]
            surv = ref_survivors(targets, FILTERS[chain_name], INPUTS[in_name])
            if surv is None:
                want = ("raised", "WorkflowExecutionException")
            else:
                host = [t for t in surv if t[0] not in blocked]
                want = ("placed", targets.index(host[0])) if host else ("pending", None)
            got = loop.run_until_complete(run_one(targets, chain_name, in_name, blocked, prev=prev))
            distinct.add((chain_name, in_name, len(targets), want[0], prev))
            if got != want:
                if got[0] == "placed" and want[0] == "placed":
                    gt = targets[got[1]]
                    kind = "not-a-survivor" if gt not in (surv or []) else ("cannot-host" if gt[0] in blocked else "not-first")
                else:
                    kind = f"{want[0]}-expected-{got[0]}"
                hist = f" after an earlier job of the same step with inputs {INPUTS[prev]}" if prev else ""
                fails.append((f"C13|{kind}|chain={chain_name}" + ("|after-earlier-job" if prev else ""),
                              f"targets (declared order) {targets}, filters {chain_name}, inputs {INPUTS[in_name]}, busy "
                              f"deployments {sorted(blocked)}{hist}: got {got}, expected {want} (survivors {surv})",
                              {"targets": targets, "chain": chain_name, "inputs": in_name, "blocked": sorted(blocked), "prev": prev}))
    finally:
        loop.close()
    dedup = {}
    for k, m, p in fails:
        dedup.setdefault(k, (k, m, p))
    return ChunkResult(n, distinct, list(dedup.values()), samples=[list(chunk["items"][0])])


def main(argv=None):
    args = runner.tier_args(argv)
    if args.replay:
        import json

        p = json.load(open(args.replay))["replay"]
        if "case" in p:
            out = run_case(p["case"], runner.unrle(p["choices"]))
            for k, m in out.failures:
                print(f"VIOLATION property={PROP} replay={args.replay}\n  {k}: {m}")
            return 1 if out.failures else 0
        r = check_chunk({"items": [(p["targets"], p["chain"], p["inputs"], set(p["blocked"]), p.get("prev"))]})
        for k, m, _ in r.failures:
            print(f"VIOLATION property={PROP} replay={args.replay}\n  {k}: {m}")
        return 1 if r.failures else 0
    rep = runner.Report(PROP, args.tier, "exploration", runner.seed())
    quick = args.tier == "quick"
    pool = POOL[:4] if quick else POOL
    items = []
    bl = [set(), {"dA"}, {"dB"}, {"dA", "dB"}] if quick else [set(s) for r in range(4) for s in itertools.combinations(["dA", "dB", "dC"], r)]
    for k in range(1, 5):
        for targets in itertools.permutations(pool, k):
            for chain in FILTERS:
                for inp in INPUTS:
                    for b in bl:
                        items.append((list(targets), chain, inp, b))
    if quick:
        items = [it for i, it in enumerate(items) if len(it[0]) <= 3 or i % 3 == 0]
    # histories: the same placement question after an earlier job of the same step with (other) input values
    hist = []
    for k in ((2, 3) if quick else (1, 2, 3)):
        for targets in itertools.permutations(pool[:3] if quick else pool, k):
            for chain in FILTERS:
                if chain in ("none", "pass"):
                    continue
                for inp in INPUTS:
                    for prev in INPUTS:
                        for b in (bl[:2] if quick else bl):
                            hist.append((list(targets), chain, inp, b, prev))
    items += hist
    size = max(1, len(items) // 256)
    chunks = [{"items": items[i:i + size]} for i in range(0, len(items), size)]
    enumr.run_enum(rep, f"checks.{PROP}", chunks, workers=args.workers)
    rep.coverage["configurations"] = len(items)
    # E1 part: connector reply times explored (deviation-bounded) on a controlled loop
    from mc.explore import Explorer

    lcases = latency_cases(args.tier)
    lb = 2 if quick else 3
    with Explorer(f"checks.{PROP}", lcases, workers=args.workers, seed=runner.seed()) as exp:
        stats, completed, levels = exp.run(lb, time_cap=120 if quick else 900)
    e3 = dict(rep.coverage)
    runner.e1_report(rep, sys.modules[__name__], lcases, stats, completed, levels, lb, samples=e3.get("samples"))
    rep.coverage["latency_cases"] = len(lcases)
    rep.coverage["latency_executions"] = stats.executions
    rep.coverage["evaluations"] = e3["evaluations"] + stats.executions
    rep.coverage["distinct_nontrivial"] = e3["distinct_nontrivial"] + len(stats.signatures)
    rep.coverage["exhaustive"] = bool(e3["exhaustive"] and completed >= lb)
    rep.coverage["rule"] = (
        "every declared ORDER (all permutations) of 1..4 targets from a pool of (deployment, service) pairs x 11 filter "
        "chains (none, pass-through, matching filters with 1..3 rules, 0..2 predicates, service rules, OR rules, "
        "chains of two) x 3 job input valuations x busy-deployment subsets, scheduled on the real DefaultScheduler "
        "(FIFO event loop); PLUS, for 2..3 targets, a controlled loop on which every connector's get_available_locations "
        "reply is a gate: all reply orders within the deviation bound; oracle: allocation target == first surviving "
        "target in declared order that can host; distinct = distinct (chain, inputs, #targets, expected outcome) + "
        "distinct event orders")
    rep.assumptions = ["asyncio starts tasks and grants Condition locks in FIFO order (documented behaviour)",
                       "one slot location per deployment; hosting capacity controlled by blocker jobs"]
    return rep.finish()


if __name__ == "__main__":
    sys.exit(main())
