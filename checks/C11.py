"""C11 -- see checks/_sched.py (shared scheduler harness)."""
import sys

from checks import _sched

PROP = "C11"
run_case = _sched.make_run_case(PROP)


def worker_init():
    from mc import wfkit

    wfkit.quiet_logging()


def main(argv=None):
    return _sched.generic_main(PROP, sys.modules[__name__], argv, retry_delay=RETRY, rule_extra=RULE)


RETRY = 0
RULE = ("oracle: reserved cores/memory/storage never negative, no notification raises, and once every job is terminal "
        "cores = memory = 0 and storage keeps only the measured usage")

if __name__ == "__main__":
    sys.exit(main())
