"""Shared CWL differential harness (C29, C30, C34): program grammar, the two runners as sub-processes, output normalisation."""
from __future__ import annotations

import hashlib
import json
import os
import shutil
import subprocess
import sys

PY = "/venv/bin/python"
REPO = os.environ.get("VERIF_REPO", "/repo")

REQS = {"InlineJavascriptRequirement": {}, "ScatterFeatureRequirement": {}, "StepInputExpressionRequirement": {},
        "MultipleInputFeatureRequirement": {}, "SubworkflowFeatureRequirement": {}}

JOB = {"a": 1, "b": 5, "xs": [1, 2, 3], "ys": [10, 20, 30], "e": [], "one": [7], "s": "it's a b", "t": True,
       "rec": {"p": 2, "q": "z"}, "xl": list(range(1, 13))}  # xl: 12 elements -- scatter indices reach two digits
INPUT_TYPES = {"a": "int", "b": "int", "xs": "int[]", "ys": "int[]", "e": "int[]", "one": "int[]", "s": "string", "t": "boolean",
               "xl": "int[]",
               "rec": {"type": {"type": "record", "name": "rec_t", "fields": {"p": "int", "q": "string"}}}}
REC_T = {"type": "record", "name": "rec_t", "fields": {"p": "int", "q": "string"}}


# ---------------------------------------------------------------------------------------------
# tools
# ---------------------------------------------------------------------------------------------

def et_inc():
    return {"class": "ExpressionTool", "requirements": {"InlineJavascriptRequirement": {}}, "inputs": {"x": "int"},
            "outputs": {"o": "int"}, "expression": "$({\"o\": inputs.x + 1})"}


def et_add():
    return {"class": "ExpressionTool", "requirements": {"InlineJavascriptRequirement": {}}, "inputs": {"x": "int", "y": "int"},
            "outputs": {"o": "int"}, "expression": "$({\"o\": inputs.x * 100 + inputs.y})"}


def et_sum():
    return {"class": "ExpressionTool", "requirements": {"InlineJavascriptRequirement": {}}, "inputs": {"x": "Any"},
            "outputs": {"o": "string"}, "expression": "$({\"o\": JSON.stringify(inputs.x)})"}


def clt_add():
    return {"class": "CommandLineTool", "requirements": {"InlineJavascriptRequirement": {}}, "baseCommand": "expr",
            "inputs": {"x": {"type": "int", "inputBinding": {"position": 1}},
                       "k": {"type": "int", "default": 10, "inputBinding": {"position": 3}}},
            "arguments": [{"position": 2, "valueFrom": "+"}], "stdout": "o.txt",
            "outputs": {"o": {"type": "int", "outputBinding": {"glob": "o.txt", "loadContents": True,
                                                                "outputEval": "$(parseInt(self[0].contents))"}}}}


def clt_file():
    return {"class": "CommandLineTool", "baseCommand": ["sh", "-c"], "inputs": {"x": {"type": "int"}},
            "arguments": [{"position": 1, "valueFrom": "echo content-$(inputs.x) > f-$(inputs.x).txt"}],
            "requirements": {"InlineJavascriptRequirement": {}},
            "outputs": {"o": {"type": "File", "outputBinding": {"glob": "f-*.txt"}}}}


def clt_cat():
    return {"class": "CommandLineTool", "baseCommand": "cat", "inputs": {"f": {"type": "File", "inputBinding": {"position": 1}}},
            "stdout": "c.txt", "requirements": {"InlineJavascriptRequirement": {}},
            "outputs": {"o": {"type": "string", "outputBinding": {"glob": "c.txt", "loadContents": True,
                                                                   "outputEval": "$(self[0].contents)"}}}}


def clt_dir():
    """a Directory with three files (one nested, two with identical content in different places)"""
    return {"class": "CommandLineTool", "baseCommand": ["sh", "-c"], "inputs": {"x": {"type": "int"}},
            "arguments": [{"position": 1, "valueFrom": "mkdir -p d-$(inputs.x)/sub && echo a-$(inputs.x) > d-$(inputs.x)/a.txt && "
                                                       "echo b > d-$(inputs.x)/b.txt && echo b > d-$(inputs.x)/sub/c.txt"}],
            "requirements": {"InlineJavascriptRequirement": {}},
            "outputs": {"o": {"type": "Directory", "outputBinding": {"glob": "d-*"}}}}


def clt_dir_cat():
    return {"class": "CommandLineTool", "baseCommand": ["sh", "-c"], "inputs": {"d": {"type": "Directory"}},
            "arguments": [{"position": 1, "valueFrom": "cd $(inputs.d.path) && find . -type f | LC_ALL=C sort | xargs cat"}],
            "stdout": "c.txt", "requirements": {"InlineJavascriptRequirement": {}},
            "outputs": {"o": {"type": "string", "outputBinding": {"glob": "c.txt", "loadContents": True,
                                                                   "outputEval": "$(self[0].contents)"}}}}


# ---------------------------------------------------------------------------------------------
# features: f(w, name) adds steps to workflow dict w (named with prefix `name`), returns (source id, cwl type)
# src: dict type -> source id available as input
# ---------------------------------------------------------------------------------------------

def _step(w, name, run, ins, outs=("o",), **extra):
    w["steps"][name] = dict({"run": run, "in": ins, "out": list(outs)}, **extra)
    return f"{name}/o"


def f_expr(w, n, src):
    return _step(w, n, et_inc(), {"x": src["int"]}), "int"


def f_clt(w, n, src):
    return _step(w, n, clt_add(), {"x": src["int"]}), "int"


def f_clt_k(w, n, src):
    return _step(w, n, clt_add(), {"x": src["int"], "k": "b"}), "int"


def f_default(w, n, src):
    return _step(w, n, et_add(), {"x": src["int"], "y": {"default": 42}}), "int"


def f_valuefrom_self(w, n, src):
    return _step(w, n, et_inc(), {"x": {"source": src["int"], "valueFrom": "$(self * 2)"}}), "int"


def f_valuefrom_other(w, n, src):
    return _step(w, n, et_add(), {"x": {"source": src["int"], "valueFrom": "$(self + inputs.y)"}, "y": "b"}), "int"


def _valuefrom_chain(referenced_first):
    """two inputs with valueFrom, one reading the OTHER through inputs.<name>: it must see the other's source value"""
    def f(w, n, src):
        x = {"source": src["int"], "valueFrom": "$(self + 100)"}
        y = {"source": "b", "valueFrom": "$(self + inputs.x)"}
        ins = {"x": x, "y": y} if referenced_first else {"y": y, "x": x}
        return _step(w, n, et_add(), ins), "int"
    return f


def _scatter1(arr):
    def f(w, n, src):
        return _step(w, n, et_inc(), {"x": src.get("int[]") if arr is None else arr}, scatter="x"), "int[]"
    return f


def _scatter1_clt(arr):
    def f(w, n, src):
        return _step(w, n, clt_add(), {"x": arr or src["int[]"]}, scatter="x"), "int[]"
    return f


def _scatter2(method, a1="xs", a2="ys"):
    def f(w, n, src):
        t = "int[]" if method in ("dotproduct", "flat_crossproduct") else {"type": "array", "items": {"type": "array", "items": "int"}}
        return _step(w, n, et_add(), {"x": a1, "y": a2}, scatter=["x", "y"], scatterMethod=method), t
    return f


def _when(expr, under_scatter=False):
    def f(w, n, src):
        if under_scatter:
            return _step(w, n, et_inc(), {"x": src["int[]"]}, scatter="x", when=expr), {"type": "array", "items": ["null", "int"]}
        return _step(w, n, et_inc(), {"x": src["int"]}, when=expr), ["null", "int"]
    return f


def _pick(method, first_null):
    def f(w, n, src):
        c1 = "$(inputs.x > 100)" if first_null else "$(inputs.x < 100)"
        s1 = _step(w, n + "a", et_inc(), {"x": src["int"]}, when=c1)
        s2 = _step(w, n + "b", clt_add(), {"x": src["int"]}, when="$(inputs.x < 100)" if method != "the_only_non_null" or first_null else "$(inputs.x > 100)")
        w["__pick__"] = (method, [s1, s2])
        return None, None  # consumed by the workflow output directly
    return f


def _merge(link, arrays):
    def f(w, n, src):
        srcs = [src["int[]"], "ys"] if arrays else [src["int"], "b"]
        return _step(w, n, et_sum(), {"x": {"source": srcs, "linkMerge": link}}), "string"
    return f


def _subwf(inner_feature):
    def f(w, n, src):
        sub = {"class": "Workflow", "requirements": dict(REQS), "inputs": {"q": "int"}, "outputs": {}, "steps": {}}
        out, t = inner_feature(sub, "in1", {"int": "q"})
        out2 = _step(sub, "in2", et_inc(), {"x": out})
        sub["outputs"] = {"o": {"type": "int", "outputSource": out2}}
        return _step(w, n, sub, {"q": src["int"]}), "int"
    return f


def _loop(limit, method, body="expr"):
    def f(w, n, src):
        run = et_inc() if body == "expr" else clt_add()
        step = {"run": run, "in": {"x": src["int"]}, "out": ["o"],
                "requirements": {"cwltool:Loop": {"loopWhen": f"$(inputs.x < {limit})", "loop": {"x": "o"}, "outputMethod": method}}}
        w["steps"][n] = step
        w["__ext__"] = True
        return f"{n}/o", ("int[]" if method == "all" else ["null", "int"])
    return f


def f_record(w, n, src):
    run = {"class": "ExpressionTool", "requirements": {"InlineJavascriptRequirement": {}},
           "inputs": {"r": {"type": dict(REC_T, name="rec_in")}, "x": "int"}, "outputs": {"o": {"type": dict(REC_T, name="rec_out")}},
           "expression": "$({\"o\": {\"p\": inputs.r.p + inputs.x, \"q\": inputs.r.q + \"!\"}})"}
    return _step(w, n, run, {"r": "rec", "x": src["int"]}), dict(REC_T, name="rec_wfout")


def f_file(w, n, src):
    s1 = _step(w, n + "mk", clt_file(), {"x": src["int"]})
    return _step(w, n + "cat", clt_cat(), {"f": s1}), "string"


def f_file_out(w, n, src):
    return _step(w, n, clt_file(), {"x": src["int"]}), "File"


def f_file_scatter(w, n, src):
    return _step(w, n, clt_file(), {"x": src["int[]"]}, scatter="x"), "File[]"


def f_dir_out(w, n, src):
    return _step(w, n, clt_dir(), {"x": src["int"]}), "Directory"


def f_dir_use(w, n, src):
    s1 = _step(w, n + "mk", clt_dir(), {"x": src["int"]})
    return _step(w, n + "cat", clt_dir_cat(), {"d": s1}), "string"


def f_dir_scatter(w, n, src):
    return _step(w, n, clt_dir(), {"x": src["int[]"]}, scatter="x"), "Directory[]"


FEATURES = {
    # name: (function, input kind it consumes, class)
    "expr": (f_expr, "int", "tool"), "clt": (f_clt, "int", "tool"), "clt_k": (f_clt_k, "int", "tool"),
    "default": (f_default, "int", "default"), "vf_self": (f_valuefrom_self, "int", "valueFrom"),
    "vf_other": (f_valuefrom_other, "int", "valueFrom"),
    "vf_chain": (_valuefrom_chain(True), "int", "valueFrom"), "vf_chain_rev": (_valuefrom_chain(False), "int", "valueFrom"),
    "scatter3": (_scatter1(None), "int[]", "scatter"), "scatter0": (_scatter1("e"), "none", "scatter"),
    "scatter1": (_scatter1("one"), "none", "scatter"), "scatter_clt": (_scatter1_clt(None), "int[]", "scatter"),
    "dot": (_scatter2("dotproduct"), "none", "scatter2"), "nested": (_scatter2("nested_crossproduct"), "none", "scatter2"),
    "flat": (_scatter2("flat_crossproduct"), "none", "scatter2"),
    "nested_empty": (_scatter2("nested_crossproduct", "e", "ys"), "none", "scatter2"),
    "nested_empty2": (_scatter2("nested_crossproduct", "xs", "e"), "none", "scatter2"),
    "nested_empty3": (_scatter2("nested_crossproduct", "e", "e"), "none", "scatter2"),
    "flat_one": (_scatter2("flat_crossproduct", "one", "ys"), "none", "scatter2"),
    "dot_empty": (_scatter2("dotproduct", "e", "e"), "none", "scatter2"),
    "scatter12": (_scatter1("xl"), "none", "scatter"), "dot12": (_scatter2("dotproduct", "xl", "xl"), "none", "scatter2"),
    "flat12": (_scatter2("flat_crossproduct", "xl", "one"), "none", "scatter2"),
    "nested12": (_scatter2("nested_crossproduct", "xl", "ys"), "none", "scatter2"),
    "when_true": (_when("$(inputs.x < 100)"), "int", "when"), "when_false": (_when("$(inputs.x > 100)"), "int", "when"),
    "when_scatter": (_when("$(inputs.x % 2 == 1)", True), "int[]", "when"),
    "pick_first": (_pick("first_non_null", True), "int", "pick"), "pick_first2": (_pick("first_non_null", False), "int", "pick"),
    "pick_only": (_pick("the_only_non_null", True), "int", "pick"), "pick_all": (_pick("all_non_null", True), "int", "pick"),
    "pick_all2": (_pick("all_non_null", False), "int", "pick"),
    "merge_nested": (_merge("merge_nested", False), "int", "merge"), "merge_flat": (_merge("merge_flattened", True), "int[]", "merge"),
    "merge_nested_arr": (_merge("merge_nested", True), "int[]", "merge"),
    "subwf": (_subwf(f_expr), "int", "subwf"), "subwf_clt": (_subwf(f_clt), "int", "subwf"),
    "loop0": (_loop(0, "last"), "int", "loop"), "loop1": (_loop(2, "last"), "int", "loop"), "loop3": (_loop(4, "last"), "int", "loop"),
    "loop3_all": (_loop(4, "all"), "int", "loop"), "loop0_all": (_loop(0, "all"), "int", "loop"),
    "loop_clt": (_loop(25, "last", "clt"), "int", "loop"),
    "record": (f_record, "int", "values"), "file": (f_file, "int", "values"), "file_out": (f_file_out, "int", "values"),
    "file_scatter": (f_file_scatter, "int[]", "values"),
    "dir_out": (f_dir_out, "int", "values"), "dir_use": (f_dir_use, "int", "values"), "dir_scatter": (f_dir_scatter, "int[]", "values"),
}


def build(spec):
    """spec: {"features": [f1] | [f1, f2]} -> (workflow document, needs_ext)"""
    w = {"cwlVersion": "v1.2", "class": "Workflow", "$namespaces": {"cwltool": "http://commonwl.org/cwltool#"},
         "requirements": dict(REQS), "inputs": dict(INPUT_TYPES), "outputs": {}, "steps": {}}
    src = {"int": "a", "int[]": "xs"}
    outs = []
    for i, fname in enumerate(spec["features"]):
        f, kind, _ = FEATURES[fname]
        out, t = f(w, f"s{i}", src)
        if "__pick__" in w:
            method, srcs = w.pop("__pick__")
            typ = {"first_non_null": "int", "the_only_non_null": "int", "all_non_null": "int[]"}[method]
            w["outputs"][f"o{i}"] = {"type": typ, "outputSource": srcs, "pickValue": method}
            continue
        outs.append((f"o{i}", out, t))
        # feed the next feature when the type fits (sequential composition), else it reads the workflow inputs
        if t == "int":
            src = dict(src, int=out)
        elif t == "int[]":
            src = dict(src, **{"int[]": out})
    for name, out, t in outs:
        w["outputs"][name] = {"type": t, "outputSource": out}
    ext = bool(w.pop("__ext__", False))
    if not ext:
        w.pop("$namespaces")
    return w, ext


# ---------------------------------------------------------------------------------------------
# runners
# ---------------------------------------------------------------------------------------------

SF_FILE = """version: v1.0
workflows: {}
database:
  type: default
  config:
    connection: "%s"
"""


def _run(cmd, cwd, env=None, timeout=240):
    e = dict(os.environ)
    e["PYTHONPATH"] = REPO + os.pathsep + e.get("PYTHONPATH", "")
    e.update(env or {})
    try:
        p = subprocess.run(cmd, cwd=cwd, env=e, capture_output=True, text=True, timeout=timeout)
        return p.returncode, p.stdout, p.stderr
    except subprocess.TimeoutExpired:
        return -9, "", "TIMEOUT"


def run_streamflow(workdir, wf_path, job_path, outdir, db=":memory:", name=None):
    sf = os.path.join(workdir, "streamflow.yml")
    with open(sf, "w") as f:
        f.write(SF_FILE % db)
    os.makedirs(outdir, exist_ok=True)
    cmd = [PY, "-m", "streamflow.cwl.runner", "--streamflow-file", sf, "--quiet", "--outdir", outdir]
    if name:
        cmd += ["--name", name]
    rc, out, err = _run(cmd + [wf_path, job_path], workdir, env={"TMPDIR": os.path.join(workdir, "tmp-sf")})
    return rc, _parse(out), err[-600:]


def run_cwltool(workdir, wf_path, job_path, outdir, ext=False):
    os.makedirs(outdir, exist_ok=True)
    cmd = [PY, "-m", "cwltool", "--quiet", "--no-container", "--outdir", outdir] + (["--enable-ext"] if ext else [])
    rc, out, err = _run(cmd + [wf_path, job_path], workdir, env={"TMPDIR": os.path.join(workdir, "tmp-cwltool")})
    return rc, _parse(out), err[-600:]


def _parse(out):
    out = out.strip()
    i = out.find("{")
    if i < 0:
        return None
    try:
        return json.loads(out[i:])
    except ValueError:
        return None


def normalize(v):
    """File/Directory objects -> content identity; everything else verbatim (order and nulls kept)"""
    if isinstance(v, list):
        return [normalize(x) for x in v]
    if isinstance(v, dict):
        if v.get("class") in ("File", "Directory"):
            p = v.get("path") or (v.get("location", "")[7:] if str(v.get("location", "")).startswith("file://") else None)
            h = None
            if v.get("class") == "File" and p and os.path.isfile(p):
                with open(p, "rb") as f:
                    h = hashlib.sha1(f.read()).hexdigest()
            if v.get("class") == "Directory":
                # a directory is its tree on disk: sorted (relative path, sha1 of content)
                tree = None
                if p and os.path.isdir(p):
                    tree = []
                    for root, dirs, files in os.walk(p):
                        dirs.sort()
                        for fn in sorted(files):
                            with open(os.path.join(root, fn), "rb") as f:
                                tree.append((os.path.relpath(os.path.join(root, fn), p), hashlib.sha1(f.read()).hexdigest()))
                        if not dirs and not files:
                            tree.append((os.path.relpath(root, p) + "/", None))
                return {"class": "Directory", "basename": v.get("basename") or (os.path.basename(p.rstrip("/")) if p else None),
                        "tree": tree}
            return {"class": v["class"], "basename": v.get("basename") or (os.path.basename(p) if p else None),
                    "sha1": h or v.get("checksum"), "size": v.get("size"),
                    "secondaryFiles": normalize(v.get("secondaryFiles", [])), "listing": normalize(v.get("listing", []))}
        return {k: normalize(x) for k, x in sorted(v.items())}
    return v


def differential(spec, scratch, keep=False):
    """run one program through both runners; returns dict(agree, sf, ref, detail)"""
    wd = os.path.join(scratch, "prog")
    shutil.rmtree(wd, ignore_errors=True)
    os.makedirs(os.path.join(wd, "tmp-sf"))
    os.makedirs(os.path.join(wd, "tmp-cwltool"))
    wf, ext = build(spec)
    wf_path, job_path = os.path.join(wd, "wf.cwl"), os.path.join(wd, "job.json")
    with open(wf_path, "w") as f:
        json.dump(wf, f, indent=1)
    with open(job_path, "w") as f:
        json.dump(JOB, f)
    rc1, out1, err1 = run_streamflow(wd, wf_path, job_path, os.path.join(wd, "out-sf"))
    rc2, out2, err2 = run_cwltool(wd, wf_path, job_path, os.path.join(wd, "out-ref"), ext=ext)
    ok1, ok2 = rc1 == 0 and out1 is not None, rc2 == 0 and out2 is not None
    res = {"sf_ok": ok1, "ref_ok": ok2, "sf": normalize(out1) if ok1 else err1[-300:], "ref": normalize(out2) if ok2 else err2[-300:]}
    res["agree"] = (ok1 == ok2) and (not ok1 or res["sf"] == res["ref"])
    if not keep:
        shutil.rmtree(wd, ignore_errors=True)
    return res
