"""C33 -- tag ordering and tag selection follow numeric component order (bounded-exhaustive)."""
from __future__ import annotations

import itertools
import posixpath
import sys

from mc import enumr, runner
from mc.enumr import ChunkResult

from streamflow.core.utils import compare_tags, get_job_step_name, get_job_tag, get_tag
from streamflow.core.workflow import Token

PROP = "C33"


def sign(x):
    return (x > 0) - (x < 0)


def key(tag):
    c = [int(x) for x in tag.split(".")]
    return (len(c), c)


def all_tags(comps, maxdepth):
    out = []
    for d in range(1, maxdepth + 1):
        for c in itertools.product(comps, repeat=d):
            out.append(".".join(map(str, c)))
    return out


def check_chunk(chunk):
    kind = chunk["kind"]
    fails, n, distinct = [], 0, set()
    if kind == "compare":
        tags = chunk["tags"]
        for x in chunk["xs"]:
            kx = key(x)
            for y in tags:
                n += 1
                got = compare_tags(x, y)
                ky = key(y)
                want = (kx > ky) - (kx < ky)
                if sign(got) != want:
                    cls = "depth" if kx[0] != ky[0] else "component"
                    fails.append((f"C33|compare_tags|{cls}", f"compare_tags({x!r},{y!r}) = {got}, numeric order says {want}",
                                  {"kind": "compare", "x": x, "y": y}))
            distinct.add(x)
    elif kind == "get_tag":
        for t in chunk["tags"]:
            c = t.split(".")
            chain = [".".join(c[: i + 1]) for i in range(len(c))]
            for r in range(1, len(chain) + 1):
                for sub in itertools.combinations(chain, r):
                    for perm in itertools.permutations(sub):
                        n += 1
                        got = get_tag([Token(None, tag=p) for p in perm])
                        want = max(sub, key=lambda z: len(z.split(".")))
                        if got != want:
                            cls = "single-component-root" if len(want.split(".")) == 1 else "chain"
                            fails.append((f"C33|get_tag|{cls}", f"get_tag over tags {list(perm)} = {got!r}, deepest is {want!r}",
                                          {"kind": "get_tag", "tags": list(perm)}))
            distinct.add(t)
    elif kind == "jobname":
        for step in chunk["steps"]:
            for t in chunk["tags"]:
                n += 1
                name = posixpath.join(step, t)
                s2, t2 = get_job_step_name(name), get_job_tag(name)
                if (s2, t2) != (step, t):
                    fails.append((f"C33|jobname|{step}", f"job name {name!r} splits into {(s2, t2)} instead of {(step, t)}",
                                  {"kind": "jobname", "step": step, "tag": t}))
                distinct.add((step, t))
    return ChunkResult(n, distinct, fails[:20], samples=[{"kind": kind, "first": str(next(iter(distinct), None))}])


def chunks_for(tier):
    comps = [0, 1, 2, 9, 10, 11, 12] if tier == "quick" else list(range(13))
    tags = all_tags(comps, 3)
    deep = all_tags([0, 9, 10, 99, 100], 4) if tier == "quick" else all_tags([0, 9, 10, 99, 100], 5)
    chunks = []
    size = max(1, len(tags) // 64)
    for i in range(0, len(tags), size):
        chunks.append({"kind": "compare", "xs": tags[i:i + size], "tags": tags})
    dsel = deep[:: max(1, len(deep) // 400)]
    for i in range(0, len(dsel), 50):
        chunks.append({"kind": "compare", "xs": dsel[i:i + 50], "tags": dsel + tags[::7]})
    gt = all_tags(list(range(13)), 3) if tier == "thorough" else tags
    for i in range(0, len(gt), max(1, len(gt) // 32)):
        chunks.append({"kind": "get_tag", "tags": gt[i:i + max(1, len(gt) // 32)]})
    chunks.append({"kind": "get_tag", "tags": deep[::97]})
    chunks.append({"kind": "jobname", "steps": ["/", "/a", "/a/b", "a", "/a.b/c-d"], "tags": tags + deep[::31]})
    return chunks


def main(argv=None):
    args = runner.tier_args(argv)
    if args.replay:
        import json

        p = json.load(open(args.replay))["replay"]
        if p["kind"] == "compare":
            r = check_chunk({"kind": "compare", "xs": [p["x"]], "tags": [p["y"]]})
        elif p["kind"] == "get_tag":
            got = get_tag([Token(None, tag=t) for t in p["tags"]])
            want = max(p["tags"], key=lambda z: len(z.split(".")))
            r = ChunkResult(1, [], [("x", f"{got} != {want}", p)] if got != want else [])
        else:
            r = check_chunk({"kind": "jobname", "steps": [p["step"]], "tags": [p["tag"]]})
        for k, m, _ in r.failures:
            print(f"VIOLATION property={PROP} replay={args.replay}\n  {k}: {m}")
        return 1 if r.failures else 0
    rep = runner.Report(PROP, args.tier, "exploration", runner.seed())
    chunks = chunks_for(args.tier)
    enumr.run_enum(rep, f"checks.{PROP}", chunks, workers=args.workers)
    rep.coverage["rule"] = (
        "all tags of depth <= 3 over the component alphabet ({0,1,2,9,10,11,12} quick, 0..12 thorough): ALL ordered "
        "pairs for compare_tags against key=(depth, ints) (a total order, so totality/antisymmetry/transitivity "
        "follow); deeper tags over {0,9,10,99,100}; get_tag on every non-empty subset of every prefix chain in every "
        "order; job-name split/join for 5 step names x every tag; distinct = distinct left operands / tags")
    rep.assumptions = ["tags are dot-separated non-negative decimal integers"]
    return rep.finish()


if __name__ == "__main__":
    sys.exit(main())
