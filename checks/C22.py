"""C22 -- transfers reproduce the source data exactly.

Real ``DefaultDataManager.transfer_data`` between a local location and two shell-based remote locations (real
tar-stream copies, real remote-path commands), over a grammar of file trees and hostile names."""
from __future__ import annotations

import asyncio
import hashlib
import itertools
import json
import os
import shutil
import stat
import sys
from types import SimpleNamespace

from mc import enumr, runner, wfkit
from mc.enumr import ChunkResult
from mc.env.fakes import FakeDeploymentManager
from mc.env.shellremote import ShellRemoteConnector

from streamflow.core.deployment import ExecutionLocation
from streamflow.data.manager import DefaultDataManager
from streamflow.deployment.connector.local import LocalConnector

PROP = "C22"

NAMES = {"plain": "data", "space": "a b", "squote": "it's", "dquote": 'q"q', "dollar": "$x", "star": "s*r", "dash": "-n",
         "unicode": "ü☃", "long": "L" * 120, "semicolon": "a;b", "backtick": "`id`"}


def worker_init():
    wfkit.quiet_logging()


def _w(path, data, mode=0o644):
    os.makedirs(os.path.dirname(path), exist_ok=True)
    with open(path, "wb") as f:
        f.write(data)
    os.chmod(path, mode)


def make_tree(shape, root):
    """create the source entity `root` (a file or a directory)"""
    if shape == "file":
        _w(root, b"hello world\n")
    elif shape == "empty_file":
        _w(root, b"")
    elif shape == "exec_file":
        _w(root, b"#!/bin/sh\necho hi\n", 0o755)
    elif shape == "big_file":
        _w(root, bytes(range(256)) * 4096)  # 1 MiB binary
    elif shape == "empty_dir":
        os.makedirs(root)
    elif shape == "dir2":
        _w(f"{root}/a.txt", b"A" * 700)
        _w(f"{root}/b.bin", bytes(range(200)), 0o755)
    elif shape == "nested":
        _w(f"{root}/d1/d2/deep.txt", b"deep" * 300)
        _w(f"{root}/d1/mid.txt", b"m")
        _w(f"{root}/top.txt", b"")
        os.makedirs(f"{root}/d1/empty", exist_ok=True)
    elif shape == "dir30":
        for i in range(30):
            _w(f"{root}/f{i:02d}", bytes([65 + i % 26]) * (i * 37))
    elif shape == "symlink_inside":
        _w(f"{root}/real.txt", b"real content")
        os.symlink("real.txt", f"{root}/link.txt")
    elif shape == "hostile_children":
        for n in ("a b", "it's", "$x", "-n", "ü☃"):
            _w(f"{root}/{n}", n.encode())
    else:
        raise ValueError(shape)


def snapshot(root):
    """content-level snapshot: symlinks are followed (read-only transfers may link); x-bit recorded for files"""
    if not os.path.lexists(root):
        return {"<missing>": True}
    if os.path.isfile(root):
        with open(root, "rb") as f:
            return {".": ("f", bool(os.stat(root).st_mode & 0o100), hashlib.sha1(f.read()).hexdigest())}
    out = {".": ("d",)}
    for dp, dns, fns in os.walk(root, followlinks=True):
        for d in dns:
            out[os.path.relpath(os.path.join(dp, d), root)] = ("d",)
        for fn in fns:
            p = os.path.join(dp, fn)
            try:
                with open(p, "rb") as f:
                    out[os.path.relpath(p, root)] = ("f", bool(os.stat(p).st_mode & 0o100), hashlib.sha1(f.read()).hexdigest())
            except OSError as e:
                out[os.path.relpath(p, root)] = ("broken", type(e).__name__)
    return out


def has_symlink(root):
    """a symbolic link that leaves the destination tree (an internal relative link copied as a link is still an
    independent copy)"""
    real_root = os.path.realpath(root) if not os.path.islink(root) else None
    if os.path.islink(root):
        return True
    for dp, dns, fns in os.walk(root):
        for n in dns + fns:
            p = os.path.join(dp, n)
            if os.path.islink(p):
                target = os.path.realpath(p)
                if not (target == real_root or target.startswith(real_root + os.sep)):
                    return True
    return False


async def transfer(item, scratch):
    base = os.path.join(scratch, "w")
    shutil.rmtree(base, ignore_errors=True)
    conns = {"__LOCAL__": LocalConnector("__LOCAL__", scratch), "r1": ShellRemoteConnector("r1", scratch),
             "r2": ShellRemoteConnector("r2", scratch)}
    ctx = SimpleNamespace(deployment_manager=FakeDeploymentManager(conns), checkpoint_manager=SimpleNamespace(register=lambda dl: None))
    dm = DefaultDataManager(ctx)
    ctx.data_manager = dm
    locs = {"local": ExecutionLocation(name="__LOCAL__", deployment="__LOCAL__", local=True),
            "r1": ExecutionLocation(name="sh0", deployment="r1", local=False),
            "r2": ExecutionLocation(name="sh0", deployment="r2", local=False)}
    src_loc, dst_loc = locs[item["src"]], locs[item["dst"]]
    name = NAMES[item["name"]]
    src_dir = os.path.join(base, "site-" + item["src"], "srcdir")
    dst_dir = os.path.join(base, "site-" + item["dst"] + ("-same" if item["src"] == item["dst"] else ""), "dstdir")
    os.makedirs(src_dir)
    os.makedirs(dst_dir)
    src = os.path.join(src_dir, name)
    make_tree(item["shape"], src)
    before = snapshot(src)
    dl = dm.register_path(src_loc, src, relpath=name)
    dl.available.set()
    mode = item["dstmode"]
    if mode == "absent":
        dst, final = os.path.join(dst_dir, name), os.path.join(dst_dir, name)
    elif mode == "rename":
        dst, final = os.path.join(dst_dir, "renamed-" + name), os.path.join(dst_dir, "renamed-" + name)
    else:  # existing directory: the entity lands inside it under its own name
        dst = os.path.join(dst_dir, "existing")
        os.makedirs(dst)
        final = os.path.join(dst, name)
    out = {}
    if item.get("then", {}).get("event") == "concurrent":
        # a SECOND transfer of the same source to the same location starts while the copy of the first one is still in
        # progress (the first copy is held at a gate); whenever the second one finishes, its destination is complete
        gate, reached, calls = asyncio.Event(), asyncio.Event(), [0]
        for cname in {item["src"], item["dst"]} - {"local"}:
            c = conns[cname]
            for meth in ("copy_local_to_remote", "copy_remote_to_local", "copy_remote_to_remote"):
                orig = getattr(c, meth)

                def wrap(orig=orig):
                    async def held(*a, **kw):
                        calls[0] += 1
                        if calls[0] == 1:
                            reached.set()
                            await gate.wait()
                        return await orig(*a, **kw)
                    return held
                setattr(c, meth, wrap())
        t1 = asyncio.ensure_future(dm.transfer_data(src_loc, src, [dst_loc], dst, writable=item["writable"]))
        try:
            await asyncio.wait_for(reached.wait(), timeout=20)
        except asyncio.TimeoutError:
            pass  # the first transfer did not need a copy between locations (nothing to hold)
        dst2 = os.path.join(dst_dir, "second-" + name)
        t2 = asyncio.ensure_future(dm.transfer_data(src_loc, src, [dst_loc], dst2, writable=item["then"]["writable"]))
        await asyncio.wait([t2], timeout=0.6)
        out["second_done_early"] = t2.done()
        early = snapshot(dst2) if t2.done() and not t2.exception() else None
        gate.set()
        res12 = await asyncio.gather(t1, t2, return_exceptions=True)
        out["raised"] = next((f"{'first' if i == 0 else 'second'} transfer: {type(e).__name__}: {str(e)[:160]}"
                              for i, e in enumerate(res12) if isinstance(e, BaseException)), None)
        out["first_dst"] = snapshot(final)
        if early is not None and early != before:
            out["early_incomplete"] = True
        final = dst2
    else:
        try:
            await asyncio.wait_for(dm.transfer_data(src_loc, src, [dst_loc], dst, writable=item["writable"]), timeout=60)
            out["raised"] = None
        except asyncio.TimeoutError:
            out["raised"] = "timeout (60 s)"
        except Exception as e:  # noqa
            out["raised"] = f"{type(e).__name__}: {str(e)[:160]}"
    if item.get("then") and item["then"]["event"] != "concurrent":
        # a SECOND transfer of the same source to the same location after the first copy was lost / clobbered and
        # invalidated (what the recovery's availability check does), or simply repeated
        ev = item["then"]["event"]
        if not out["raised"]:
            if ev in ("lost", "clobbered"):
                if os.path.isdir(final) and not os.path.islink(final):
                    shutil.rmtree(final)
                else:
                    os.unlink(final)
                if ev == "clobbered":
                    if item["shape"] == "file":
                        _w(final, b"STALE GARBAGE")
                    else:
                        _w(os.path.join(final, "a.txt"), b"STALE GARBAGE")
                dm.invalidate_location(dst_loc, final)
            dst = final = os.path.join(dst_dir, "second-" + name)
            try:
                await asyncio.wait_for(dm.transfer_data(src_loc, src, [dst_loc], dst, writable=item["then"]["writable"]), timeout=60)
            except asyncio.TimeoutError:
                out["raised"] = "second transfer: timeout (60 s)"
            except Exception as e:  # noqa
                out["raised"] = f"second transfer: {type(e).__name__}: {str(e)[:160]}"
    out["src_after"] = snapshot(src)
    out["before"] = before
    out["dst"] = snapshot(final)
    out["linked"] = os.path.lexists(final) and has_symlink(final)
    try:
        out["registered"] = bool(dm.get_data_locations(final, dst_loc.deployment, dst_loc.name))
    except Exception as e:  # noqa
        out["registered"] = f"{type(e).__name__}"
    for c in conns.values():
        try:
            await asyncio.wait_for(c.undeploy(False), timeout=8)
        except Exception:  # noqa
            pass
    return out


def check_chunk(chunk):
    worker_init()
    scratch = os.path.join(runner.scratch_dir(), f"c22-{os.getpid()}")
    os.makedirs(scratch, exist_ok=True)
    loop = asyncio.new_event_loop()
    asyncio.set_event_loop(loop)
    fails, n, distinct = {}, 0, set()
    try:
        for item in chunk["items"]:
            n += 1
            res = loop.run_until_complete(transfer(item, scratch))
            pair = f"{item['src']}->{item['dst']}"
            kind = "same-location" if item["src"] == item["dst"] else ("remote-remote" if "local" not in (item["src"], item["dst"]) else
                                                                       ("to-remote" if item["src"] == "local" else "to-local"))
            base = f"C22|{kind}|{'rw' if item['writable'] else 'ro'}|shape={item['shape']}|name={item['name']}|dst={item['dstmode']}"
            if item.get("then"):
                base += f"|then={item['then']['event']}+{'rw' if item['then']['writable'] else 'ro'}"
            msgs = []
            if res["raised"]:
                msgs.append(("raises", f"transfer_data raised {res['raised']}"))
            else:
                if res.get("early_incomplete"):
                    msgs.append(("content", "the second transfer returned while the first copy was still in progress and its "
                                            "destination was incomplete at that moment"))
                if "first_dst" in res and res["first_dst"] != res["before"]:
                    msgs.append(("content", "the FIRST destination differs from the source after both transfers finished"))
                if res["dst"] != res["before"]:
                    missing = sorted(set(res["before"]) - set(res["dst"]))[:4]
                    extra = sorted(set(res["dst"]) - set(res["before"]))[:4]
                    diff = sorted(k for k in set(res["dst"]) & set(res["before"]) if res["dst"][k] != res["before"][k])[:4]
                    msgs.append(("content", f"destination differs from the source: missing {missing} extra {extra} different {diff}"))
                if res["linked"] and item["writable"]:
                    msgs.append(("link-in-writable-copy", "a writable transfer produced symbolic links that leave the destination tree"))
                if res["registered"] is not True:
                    msgs.append(("unregistered", f"destination not registered as an available copy ({res['registered']})"))
            if res["src_after"] != res["before"]:
                msgs.append(("source-changed", "the transfer modified the source tree"))
            distinct.add((kind, item["writable"], item["shape"], item["name"], item["dstmode"], bool(msgs)))
            for k, m in msgs:
                key = f"{base}|{k}"
                if k == "content" and item["dstmode"] == "existing-dir" and item["shape"] not in ("file", "empty_file", "exec_file", "big_file") \
                        and item["dst"] == "local":
                    # recorded finding: keyed by cause and transfer kind
                    key = f"C22|cause=directory-into-existing-directory|{kind}"
                if k == "content" and kind == "remote-remote" and item["dstmode"] == "rename" and item["shape"] == "exec_file":
                    key = "C22|cause=renamed-single-file-piped-through-tee-loses-its-mode|remote-remote"
                fails.setdefault(key, (key, f"{pair} {item}: {m}", {"items": [item]}))
    finally:
        loop.close()
        shutil.rmtree(scratch, ignore_errors=True)
    return ChunkResult(n, distinct, list(fails.values()), samples=[chunk["items"][0]])


def all_items(tier):
    quick = tier == "quick"
    shapes = ["file", "empty_file", "exec_file", "empty_dir", "dir2", "nested", "dir30", "symlink_inside", "hostile_children", "big_file"]
    pairs = [(a, b) for a in ("local", "r1", "r2") for b in ("local", "r1", "r2") if not (a == "r2" and b == "r2")]
    items = []
    for a, b in pairs:
        for w in (True, False):
            for sh in shapes:
                if quick and sh == "big_file" and (a, b) not in (("local", "r1"), ("r1", "local"), ("r1", "r2")):
                    continue
                for dm in ("absent", "existing-dir", "rename"):
                    if quick and dm != "absent" and sh not in ("file", "dir2"):
                        continue
                    items.append({"src": a, "dst": b, "writable": w, "shape": sh, "name": "plain", "dstmode": dm})
            for nm in NAMES:
                if nm == "plain":
                    continue
                for sh in ("file", "dir2"):
                    for dm in (("absent",) if quick else ("absent", "existing-dir", "rename")):
                        items.append({"src": a, "dst": b, "writable": w, "shape": sh, "name": nm, "dstmode": dm})
    # two-transfer histories: first copy (ro/rw), then {nothing, copy lost + invalidated, copy clobbered + invalidated}, then
    # a second transfer of the same source to the same location
    for a, b in [(a, b) for a, b in pairs if a != b]:
        for sh in ("file", "dir2"):
            for w1 in (False, True):
                for ev in ("none", "lost", "clobbered"):
                    for w2 in (False, True):
                        items.append({"src": a, "dst": b, "writable": w1, "shape": sh, "name": "plain", "dstmode": "absent",
                                      "then": {"event": ev, "writable": w2}})
    # ... and the second transfer started while the first copy is still in progress
    for a, b in [(a, b) for a, b in pairs if a != b and b != "local"]:
        for sh in ("file", "dir2"):
            for w1 in (False, True):
                for w2 in (False, True):
                    items.append({"src": a, "dst": b, "writable": w1, "shape": sh, "name": "plain", "dstmode": "absent",
                                  "then": {"event": "concurrent", "writable": w2}})
    if not quick:
        for a, b in pairs:
            for nm in NAMES:
                for sh in shapes:
                    if sh in ("file", "dir2", "big_file") or nm == "plain":
                        continue
                    items.append({"src": a, "dst": b, "writable": True, "shape": sh, "name": nm, "dstmode": "absent"})
    return items


def main(argv=None):
    args = runner.tier_args(argv)
    worker_init()
    if args.replay:
        p = json.load(open(args.replay))["replay"]
        r = check_chunk(p)
        for k, m, _ in r.failures:
            print(f"VIOLATION property={PROP} replay={args.replay}\n  {k}: {m}")
        return 1 if r.failures else 0
    rep = runner.Report(PROP, args.tier, "exploration", runner.seed())
    items = all_items(args.tier)
    nchunks = 128
    chunks = [{"items": items[i::nchunks]} for i in range(nchunks) if items[i::nchunks]]
    enumr.run_enum(rep, f"checks.{PROP}", chunks, workers=args.workers)
    rep.coverage.update({"transfers": len(items)})
    rep.coverage["rule"] = (
        "8 location pairs over {local, shell-remote r1, shell-remote r2} (incl. same location) x writable/read-only x 10 tree "
        "shapes (file, empty file, executable, 1 MiB binary, empty dir, 2 files, nested depth 3 with empty dir, 30 entries, "
        "internal relative symlink, hostile child names) x destination {absent, existing directory, different basename} x 11 "
        "name classes (space, quotes, $, *, leading dash, unicode, 120 bytes, ;, backtick) on the file and 2-file shapes "
        "(thorough: on every shape), through the real DefaultDataManager.transfer_data; plus two-transfer histories (first copy ro/rw, "
        "then nothing / copy lost and invalidated / copy clobbered and invalidated, then a second transfer ro/rw) for every pair "
        "of different locations; oracle: destination content, structure "
        "and x-bits equal the source (links followed), no links in writable copies, destination registered, source untouched; "
        "distinct = (pair kind, mode, shape, name, destination, outcome)")
    rep.assumptions = ["remote locations are /bin/sh on this machine with separate directories (ShellRemoteConnector); wrapped "
                       "remote locations (containers over ssh) are not covered",
                       "symbolic links are compared by the content they resolve to"]
    return rep.finish()


if __name__ == "__main__":
    sys.exit(main())
