"""C18 -- recovery re-runs only failed jobs and producers of lost data (same fault plans and schedules as C16)."""
from __future__ import annotations

import sys

from checks import C16, _exec, _recov
from mc import runner

PROP = "C18"
worker_init = _recov.worker_init


def run_case(params, prefix):
    ex, res = _recov.run(params, prefix)
    base = "C18|" + _recov.base_key(params)
    fails = []
    run_ = res.get("run")
    if not ex.hang and not ex.error and run_ is not None and not res.get("raised"):
        spec = params["spec"]
        counts, fexec = _recov.summarize(res)
        failed_jobs = {j for j, _, _ in run_.failure_log}
        anc_of_failed = set()
        for j in failed_jobs:
            anc_of_failed |= _recov.ancestors(spec, j)
        lost = set(run_.lost_jobs) & set(run_.truly_lost)  # a job whose every output kept a physical replica lost nothing
        any_loss = any(f["kind"] == "failstop" for f in params.get("plan") or [])
        for j in _exec.program_jobs(spec):
            n = counts.get(j, 0)
            own = fexec.get(j, 0)
            if n < 1:
                fails.append((base + f"|never-ran|{_cls(j)}", f"{j} never ran although run() returned; executions {run_.exec_log}"))
                continue
            extra = n - 1 - own  # executions not explained by the job's own execute-phase failures
            if extra < 0:
                fails.append((base + f"|count-mismatch|{_cls(j)}", f"{j}: {n} executions but {own} execute-phase failures"))
            elif extra > 0:
                why = None
                if not any_loss:
                    why = "no data was lost (soft failures only)"
                elif j not in lost:
                    why = "its outputs stayed available"
                elif j not in anc_of_failed:
                    why = "it is not a provenance ancestor of any failed job"
                if why:
                    fails.append((base + f"|needless-rerun|{_cls(j)}",
                                  f"{j} was executed {n} times ({own} own execute failures) although {why}; lost={sorted(lost)} "
                                  f"failed={sorted(failed_jobs)}; executions {run_.exec_log}; failures {run_.failure_log}"))
                else:
                    # at most one re-execution per loss of its data and per failed descendant attempt
                    budget = run_.loss_events.get(j, 0) + sum(1 for x in run_.failure_log if x[0] != j)
                    if extra > max(budget, 1):
                        fails.append((base + f"|rerun-too-often|{_cls(j)}",
                                      f"{j} re-executed {extra} times for {run_.loss_events.get(j, 0)} loss event(s) and "
                                      f"{len(run_.failure_log)} failure(s); executions {run_.exec_log}"))
    return _recov.make_outcome(ex, res, fails)


def _cls(job):
    return job.rsplit("/", 1)[0]


cases_for = C16.cases_for


def main(argv=None):
    args = runner.tier_args(argv)
    worker_init()
    if args.replay:
        return _exec.replay_main(PROP, sys.modules[__name__], args.replay)
    cases = cases_for(args.tier)
    cb = {i: c["bound"] for i, c in enumerate(cases)}
    return _exec.generic_main(
        PROP, sys.modules[__name__], "fault_enumeration", cases, 1, cb,
        rule="the fault plans and schedules of C16; per execution the number of command runs of every job (harness log) is "
             "compared with 1 + its own execute-phase failures: any surplus run requires that the job's output directory was "
             "deleted by a fault AND that the job is an ancestor (workflow graph, computed by the harness) of a failed job; "
             "soft plans allow no surplus at all; a surplus larger than the number of loss events + failures is also rejected",
        assumptions=_exec.ENV_ASSUMPTIONS + [
            "an execution = one run of the job's command (schedule- and transfer-phase failures happen before it runs)",
            "executions that hang or raise are judged by C16/C17, not here"],
        args=args, time_cap=280 if args.tier == "quick" else 1500)


if __name__ == "__main__":
    sys.exit(main())
