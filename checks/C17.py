"""C17 -- retries are bounded; exhausted retries fail the workflow (fault enumeration x schedules)."""
from __future__ import annotations

import sys

from checks import _exec, _recov
from mc import runner

PROP = "C17"
worker_init = _recov.worker_init


def run_case(params, prefix):
    ex, res = _recov.run(params, prefix)
    m = params["max_retries"]  # None = DummyFailureManager
    if params.get("budget"):
        return run_budget_case(params, prefix)
    f = params["plan"][0] if params.get("plan") else None
    base = f"C17|{_exec.spec_key(params['spec'])}|max_retries={m}|" + (
        f"{f['job']}:{f['phase']}:{f['kind']}x{f['count']}" if f else "nofault")
    fails = []
    run_ = res.get("run")
    if ex.hang:
        fails.append((base + "|hang", f"executor never returns (a job that keeps failing must make the workflow raise, not hang); "
                                      f"pending {ex.pending[:6]}; executions {run_.exec_log if run_ else None}"))
    elif ex.error:
        fails.append((base + "|error", f"{ex.error[0]}: {ex.error[1]!r}"))
    else:
        counts, fexec = _recov.summarize(res)
        limit = 1 if m is None else m
        over = {j: n for j, n in counts.items() if n > limit}
        if over:
            fails.append((base + "|too-many-executions", f"jobs executed more often than the retry limit {limit}: {over}; "
                                                         f"executions {run_.exec_log}; failures {run_.failure_log}"))
        # attempts of the faulty job in its faulty phase (schedule/transfer failures happen before the command runs)
        if f is not None:
            attempts = run_.counts.get((f["job"], f["phase"]), 0)
            if attempts > limit:
                fails.append((base + "|too-many-attempts", f"{f['job']} attempted its {f['phase']} phase {attempts} times, retry limit {limit}"))
        nfail = f["count"] if f else 0
        collateral = [x for x in run_.failure_log if x[2].startswith(("collateral", "missing-input"))]
        if f is not None and nfail >= limit:
            if not res.get("raised"):
                fails.append((base + "|no-raise", f"{f['job']} failed {nfail} times with retry limit {limit} but run() returned "
                                                  f"{res.get('ret_content')}; executions {run_.exec_log}"))
            elif "WorkflowExecutionException" not in res["raised"] and "FailureHandlingException" not in res["raised"]:
                fails.append((base + "|raise-type", f"run() raised {res['raised']}"))
            bad = {n: s for n, s in res["statuses"].items() if not s[1]}
            if bad:
                fails.append((base + "|not-terminated", f"steps not terminated after the workflow failed: {bad}"))
        elif collateral and res.get("raised") and _recov.sibling_failures(run_):
            # recorded cause: a SECOND step of the same job (its other transfer step, still running in the original workflow)
            # fails because the first failure's recovery has just rolled the job back; it is handled as another failure of
            # the job, so one injected failure consumes the retry budget twice
            fails.append((f"C17|cause=sibling-step-of-a-rolled-back-job-fails-and-consumes-the-retry-budget|prog={params['spec']['prog']}",
                          f"{f['job']} failed {nfail} time(s) (< limit {limit}) in {f['phase']} but run() raised {res['raised']}; "
                          f"failures {run_.failure_log}; executions {run_.exec_log}"))
        elif not collateral:
            if res.get("raised"):
                fails.append((base + "|raised", f"{f['job'] if f else 'no job'} failed {nfail} times (< limit {limit}) but run() raised "
                                                f"{res['raised']}; failures {run_.failure_log}; executions {run_.exec_log}"))
            elif res.get("ret_content") != res["expected"]:
                fails.append((base + "|outputs", f"outputs {res.get('ret_content')} != {res['expected']}"))
        if res.get("pending_after_run"):
            fails.append((base + "|pending", f"tasks pending at quiescence: {res['pending_after_run'][:5]}"))
        if _recov.sibling_failures(run_):
            # two steps of the failing job failed in this execution (the second one collaterally): whatever the budget
            # symptom (aborted early, not aborted at the limit, one attempt too many) it is the recorded cause
            cause = f"C17|cause=sibling-step-of-a-rolled-back-job-fails-and-consumes-the-retry-budget|prog={params['spec']['prog']}"
            fails = [((cause if k.endswith(("|raised", "|no-raise", "|too-many-attempts")) else k), m + f"; failures {run_.failure_log}")
                     for k, m in fails]
    return _recov.make_outcome(ex, res, fails)


def run_budget_case(params, prefix):
    """several jobs fail fail-stop and lose their ancestors' outputs: the ancestors are rolled back by OTHER jobs'
    failures.  Only the bound is asserted: nobody runs more than max_retries times, the run terminates, and if it
    returns its outputs are right (whether it must raise depends on how the budget is shared, which the property
    does not fix)."""
    ex, res = _recov.run(params, prefix)
    m = params["max_retries"]
    base = f"C17|budget|{_exec.spec_key(params['spec'])}|max_retries={m}|" + _recov.base_key(params).split("|plan=")[1]
    fails = []
    run_ = res.get("run")
    if ex.hang:
        key = _recov.hang_key("C17", params, run_, base)
        fails.append((key, f"executor never returns; pending {ex.pending[:6]}; executions {run_.exec_log if run_ else None}"))
    elif ex.error:
        fails.append((base + "|error", f"{ex.error[0]}: {ex.error[1]!r}"))
    else:
        counts, fexec = _recov.summarize(res)
        over = {j: n for j, n in counts.items() if n > m}
        if over:
            fails.append((base + "|too-many-executions", f"jobs executed more often than the retry limit {m}: {over}; "
                                                         f"executions {run_.exec_log}; failures {run_.failure_log}"))
        if not res.get("raised") and res.get("ret_content") != res["expected"]:
            fails.append((base + "|outputs", f"outputs {res.get('ret_content')} != {res['expected']}"))
        if res.get("raised") and "WorkflowExecutionException" not in res["raised"] and "FailureHandlingException" not in res["raised"]:
            fails.append((base + "|raise-type", f"run() raised {res['raised']}"))
        if res.get("pending_after_run"):
            fails.append((base + "|pending", f"tasks pending at quiescence: {res['pending_after_run'][:5]}"))
    return _recov.make_outcome(ex, res, fails)


def budget_cases(tier):
    quick = tier == "quick"
    out = []

    def fs(job, lose, count=1):
        return {"job": job, "phase": "execute", "kind": "failstop", "count": count, "lose": lose}

    for m in ((2, 3) if quick else (2, 3, 4)):
        spec = {"prog": "filejobs", "k": 3}
        for c1 in (1, 2):
            for c2 in (1, 2):
                plan = [fs("/f1/0", ["/f0/0"], c1), fs("/f2/0", ["/f0/0", "/f1/0"], c2)]
                out.append({"spec": spec, "plan": plan, "fm": _recov.FM(m), "max_retries": m, "budget": True, "bound": 0})
                if c1 == c2 == 1:
                    out.append({"spec": spec, "plan": plan, "fm": _recov.FM(m), "max_retries": m, "budget": True, "idle_only": True,
                                "bound": 1 if quick else 2})
        spec = {"prog": "filescatter", "n": 2}
        plan = [fs("/B/0.0", ["/A/0"]), fs("/B/0.1", ["/A/0"]), fs("/C/0", ["/A/0", "/B/0.0", "/B/0.1"])]
        out.append({"spec": spec, "plan": plan, "fm": _recov.FM(m), "max_retries": m, "budget": True, "bound": 0})
        out.append({"spec": spec, "plan": plan[:2], "fm": _recov.FM(m), "max_retries": m, "budget": True, "idle_only": True,
                    "bound": 1})
    return out


def cases_for(tier):
    quick = tier == "quick"
    shapes = [{"prog": "jobs", "k": 2}, {"prog": "filejobs", "k": 2}, {"prog": "scatterjobs", "n": 2},
              {"prog": "loopjob", "pred": "lt1"}]
    if not quick:
        shapes += [{"prog": "filescatter", "n": 2}, {"prog": "loopjob", "pred": "lt3"}, {"prog": "filediamond"},
                   {"prog": "filejobs", "k": 2, "kind": "list"}]
    limits = [1, 2, 3] if quick else [1, 2, 3, 5]
    out = []
    for spec in shapes:
        jobs = _exec.program_jobs(spec)
        for m in limits:
            out.append({"spec": spec, "plan": [], "fm": _recov.FM(m), "max_retries": m, "bound": 0})
            for j in jobs:
                for phase in ("execute", "transfer", "schedule"):
                    for kind in ("soft", "failstop"):
                        for count in range(1, m + 3):
                            if quick and count > m + 1:
                                continue
                            f = {"job": j, "phase": phase, "kind": kind, "count": count}
                            if kind == "failstop":
                                f["lose"] = "own"
                            c = {"spec": spec, "plan": [f], "fm": _recov.FM(m), "max_retries": m}
                            out.append(dict(c, bound=0))
                            if count in (m - 1, m, m + 1) and count >= 1 and (not quick or phase == "execute" or kind == "soft"):
                                out.append(dict(c, idle_only=True, bound=1 if quick else 2))
        # without a rollback failure manager the first failure fails the workflow
        for j in jobs:
            for phase in ("execute", "transfer", "schedule"):
                f = {"job": j, "phase": phase, "kind": "soft", "count": 1}
                out.append({"spec": spec, "plan": [f], "fm": None, "max_retries": None, "bound": 1})
    return out + budget_cases(tier)


def main(argv=None):
    args = runner.tier_args(argv)
    worker_init()
    if args.replay:
        return _exec.replay_main(PROP, sys.modules[__name__], args.replay)
    cases = cases_for(args.tier)
    cb = {i: c["bound"] for i, c in enumerate(cases)}
    return _exec.generic_main(
        PROP, sys.modules[__name__], "fault_enumeration", cases, 1 if args.tier == "quick" else 2, cb,
        rule="job shapes x max_retries {1,2,3[,5]} x EVERY (job, phase, soft|fail-stop, failure count 1..limit+2) plus the "
             "DummyFailureManager with one failure x schedules (default; all schedules within the deviation bound in the "
             "idle-only sub-space around the limit: count in {limit-1, limit, limit+1}); oracle: no job's command runs more "
             "than max_retries times, the failing phase is attempted at most max_retries times, count >= limit => run() raises "
             "WorkflowExecutionException with every step terminated and nothing pending, count < limit => success with the "
             "failure-free outputs, never a hang",
        assumptions=_exec.ENV_ASSUMPTIONS + [
            "max_retries = total number of attempts of a job (RecoveryRequest.version starts at 1 and a retry needs version < max_retries)",
            "fail-stop faults lose only the failing job's own directories, so no other job consumes retry budget"],
        args=args, time_cap=280 if args.tier == "quick" else 1500)


if __name__ == "__main__":
    sys.exit(main())
