"""C16 -- recovered runs produce the same outputs as failure-free runs (fault enumeration x schedules)."""
from __future__ import annotations

import sys

from checks import _exec, _recov
from mc import runner

PROP = "C16"
worker_init = _recov.worker_init


def run_case(params, prefix):
    ex, res = _recov.run(params, prefix)
    base = "C16|" + _recov.base_key(params)
    fails = []
    if ex.hang:
        run_ = res.get("run")
        key = _recov.hang_key("C16", params, run_, base)  # recorded causes are keyed by cause and program, not by plan
        fails.append((key, f"executor never returns; failures {run_.fail_sites if run_ else None}; pending {ex.pending[:6]}; "
                           f"executions {run_.exec_log if run_ else None}"))
    elif ex.error:
        fails.append((base + "|error", f"{ex.error[0]}: {ex.error[1]!r}"))
    else:
        run_ = res["run"]
        if res.get("raised"):
            fails.append((_recov.raised_key(params, run_, base), f"run() raised {res['raised']} although every job fails fewer times than the retry "
                                            f"limit; failures {run_.failure_log}; executions {run_.exec_log}"))
        elif res.get("ret_content") != res["expected"]:
            fails.append((base + "|outputs", f"outputs {res.get('ret_content')} differ from the failure-free run {res['expected']}; "
                                             f"failures {run_.failure_log}; executions {run_.exec_log}"))
        else:
            bad = {n: s for n, s in res["statuses"].items() if s[0] != "COMPLETED" or not s[1]}
            if bad:
                fails.append((base + "|status", f"steps of the original workflow not COMPLETED: {bad}"))
        if res.get("pending_after_run"):
            key = base + "|pending"
            if res.get("raised") and _recov.producer_failed_during_recovery(params["spec"], run_):
                # third symptom of the recorded cause: run() raised and tasks of the abandoned recovery workflows stay pending
                key = f"C16|pending|cause=producer-fails-while-being-re-executed-for-concurrent-recoveries|prog={params['spec']['prog']}"
            fails.append((key, f"tasks pending at quiescence: {res['pending_after_run'][:5]}"))
    return _recov.make_outcome(ex, res, fails)


def cases_for(tier):
    quick = tier == "quick"
    out = []
    for spec in _recov.shapes(tier):
        faults = _recov.single_faults(spec, tier)
        for f in faults:
            c = {"spec": spec, "plan": [f], "fm": _recov.FM(8)}
            out.append(dict(c, bound=0))
            out.append(dict(c, idle_only=True, bound=1 if quick else 2))
        if not quick and not spec.get("sites"):  # (pairs of faults on the two-site shapes: their replica bookkeeping is only
            # validated for single faults -- DESIGN 8.13)
            js = _exec.program_jobs(spec)
            ex_faults = [f for f in faults if f["phase"] == "execute" and f["count"] == 1 and f.get("lose", "own") in ("own", "all")]
            for i in range(len(ex_faults)):
                for j in range(i + 1, len(ex_faults)):
                    if ex_faults[i]["job"] != ex_faults[j]["job"]:
                        out.append({"spec": spec, "plan": [ex_faults[i], ex_faults[j]], "fm": _recov.FM(10), "idle_only": True, "bound": 1})
    # a few plans under the full environment model (every I/O reply may overtake computation)
    full = [({"prog": "filejobs", "k": 2}, {"job": "/f1/0", "phase": "execute", "kind": "failstop", "count": 1, "lose": ["/f0/0"]}),
            ({"prog": "filescatter", "n": 2}, {"job": "/B/0.1", "phase": "execute", "kind": "failstop", "count": 1, "lose": ["/A/0"]}),
            ({"prog": "jobs", "k": 2}, {"job": "/j1/0", "phase": "execute", "kind": "soft", "count": 1})]
    for spec, f in (full[:1] if quick else full):
        out.append({"spec": spec, "plan": [f], "fm": _recov.FM(8), "bound": 1})
    return out


def main(argv=None):
    args = runner.tier_args(argv)
    worker_init()
    if args.replay:
        return _exec.replay_main(PROP, sys.modules[__name__], args.replay)
    cases = cases_for(args.tier)
    cb = {i: c["bound"] for i, c in enumerate(cases)}
    return _exec.generic_main(
        PROP, sys.modules[__name__], "fault_enumeration", cases, 1, cb,
        rule="shapes (scalar/file/list/object pipelines of 1..3 jobs, scatter of jobs, A->scatter B_i->gather->C over "
             "files, diamond, loop with a job body) x EVERY single fault (job x phase {schedule, transfer, execute} x "
             "{soft, fail-stop} x count {1,2}; fail-stop loses the job's own directories / its direct producers' / all "
             "ancestors' / every job directory) [thorough: pairs of execute faults on different jobs] x schedules "
             "(default; all schedules with <= 1 (2) deviations in the idle-only sub-space; full model for 1-3 plans); "
             "oracle: run() returns, outputs (file CONTENT) equal the failure-free run, all steps COMPLETED, no hang",
        assumptions=_exec.ENV_ASSUMPTIONS + [
            "max_retries (8) exceeds the total number of failures any job can accumulate in a plan",
            "a job that finds an input missing reports an ordinary FAILED command (recoverable), not an unrecoverable "
            "exception (the test suite's injector artefact, see DESIGN 3/C16)"],
        args=args, time_cap=280 if args.tier == "quick" else 1500)


if __name__ == "__main__":
    sys.exit(main())
