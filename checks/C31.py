"""C31 -- expression dependency analysis covers every input an expression reads.

All expressions of a small grammar (parameter references and JavaScript expressions / function bodies) are
(a) analysed by the real ``resolve_dependencies`` and (b) evaluated by node.js with ``inputs`` wrapped in a recording
Proxy.  Whenever node evaluates successfully, the analysis must return without exception and every field of
``inputs`` that was read must be in the returned set."""
from __future__ import annotations

import itertools
import json
import os
import shutil
import subprocess
import sys

from mc import enumr, runner, wfkit
from mc.enumr import ChunkResult

PROP = "C31"

INPUTS = {"a": 1, "b": "xy", "c": [1, 2], "d": {"e": 1, "f": [3]}, "a b": 2, "x-y": 3, "q'q": 4, "n": None, "t": True}


def worker_init():
    wfkit.quiet_logging()


# ---------------------------------------------------------------------------------------------
# grammar.  Every item: (label of the production, expression text, full_js)
# ---------------------------------------------------------------------------------------------

ATOMS = [  # (label, js text)
    ("dot", "inputs.a"), ("dot-b", "inputs.b"), ("idx-sq", "inputs['a']"), ("idx-dq", 'inputs["a"]'),
    ("idx-space-key", "inputs['a b']"), ("idx-dash-key", 'inputs["x-y"]'), ("idx-quote-key", 'inputs["q\'q"]'),
    ("len", "inputs.c.length"), ("elem", "inputs.c[0]"), ("nested-dot", "inputs.d.e"), ("nested-idx", 'inputs["d"]["e"]'),
    ("nested-mixed", "inputs.d['e']"), ("nested-mixed2", "inputs['d'].f[0]"), ("paren-obj", "(inputs).a"), ("paren", "(inputs.a)"),
    ("spaces", "inputs . a"), ("newline", "inputs\n.a"), ("idx-spaces", "inputs[ 'a' ]"), ("method", "inputs.b.toUpperCase()"),
    ("strlen", "inputs.b.length"), ("null", "inputs.n"), ("bool", "inputs.t"),
]
CONST = [("num", "1"), ("str-mention", '"inputs.z"'), ("str-mention-sq", "'inputs[\"z\"]'"), ("obj-key-named-inputs", "({inputs: {zz: 1}}).inputs.zz")]

BODIES = [  # (label, function body for ${...})
    ("return-atom", "return {A};"),
    ("var-then-return", "var x = {A}; return x;"),
    ("alias-var", "var x = inputs; return x.a;"),
    ("alias-assign", "var x; x = inputs; return x.a;"),
    ("alias-chain", "var y = inputs; var z = y; return z.b;"),
    # statement ORDER matters for stateful analyses: an access first, then an alias by assignment, then a read through it
    ("access-then-alias-assign", "var n = {A}; var x; x = inputs; return x.b + n;"),
    ("access-then-alias-of-alias", "var n = inputs.c.length; var x; var y; x = inputs; y = x; return y.a + n;"),
    ("alias-assign-then-access", "var x; x = inputs; var n = {A}; return x.b + n;"),
    ("two-aliases", "var x; var y; x = inputs; y = inputs; return x.a + y.b;"),
    ("alias-reassigned-away", "var x; x = inputs; var r = x.a; x = {q: 1}; return r + x.q;"),
    ("method-call-then-alias", "var r = []; r.push(1); var x; x = inputs; return x.t;"),
    ("alias-idx", "var x = inputs; return x['a'];"),
    ("sub-alias", "var x = inputs.d; return x.e;"),
    ("shadow-param", "function f(inputs) { return inputs.z; } return f({z: 1});"),
    ("shadow-param-and-real", "function f(inputs) { return inputs.z; } return f({z: 1}) + {A};"),
    ("pass-inputs", "function f(p) { return p.a; } return f(inputs);"),
    ("pass-inputs-idx", "function f(p) { return p['b']; } return f(inputs);"),
    ("closure", "function f() { return {A}; } return f();"),
    ("iife", "return (function() { return {A}; })();"),
    ("nested-fn", "function f() { function g() { return {A}; } return g(); } return f();"),
    ("computed-const", "var k = 'a'; return inputs[k];"),
    ("computed-concat", "return inputs['a' + ''];"),
    ("computed-from-input", "return inputs[inputs.b === 'xy' ? 'a' : 'c'];"),
    ("if-else", "if ({A} > 0) { return inputs.b; } else { return inputs.c; }"),
    ("ternary-stmt", "return {A} ? inputs.b : inputs.c;"),
    ("for-loop", "var s = 0; for (var i = 0; i < inputs.c.length; i++) { s += inputs.c[i]; } return s + {A};"),
    ("map-callback", "return [1, 2].map(function(v) { return v + {A}; });"),
    ("reassign-inputs", "var r = {A}; inputs = {q: 1}; return r + inputs.q;"),
    ("comment-mention", "// inputs.z\nreturn {A}; /* inputs.y */"),
    ("string-concat", "return \"it's \" + {A};"),
    ("object-literal", "return {k: {A}, 'inputs': 1};"),
    ("array-literal", "return [{A}, inputs.b];"),
    ("logical", "return {A} && inputs.b || inputs.c;"),
    ("typeof", "return typeof {A};"),
    ("var-no-init-shadow", "var inputs2 = 1; return {A} + inputs2;"),
    ("member-named-inputs", "var o = {inputs: {zz: 1}}; return o.inputs.zz + {A};"),
    ("try-catch", "try { return {A}; } catch (e) { return inputs.b; }"),
    ("switch", "switch ({A}) { case 1: return inputs.b; default: return inputs.c; }"),
    ("while", "var i = 0; while (i < {A}) { i++; } return i;"),
    ("let-alias-block", "var x = inputs; { var y = x; } return y.c;"),
]


def items(tier):
    quick = tier == "quick"
    out = []
    atoms = ATOMS if not quick else ATOMS
    # parameter references (no JS engine): $(...)
    for lab, a in ATOMS:
        if lab in ("paren-obj", "paren", "method", "newline", "spaces", "idx-spaces"):
            continue  # not parameter-reference syntax (CWL itself rejects them without InlineJavascriptRequirement)
        out.append((f"pref:{lab}", f"$({a})", False))
        out.append((f"pref-interp:{lab}", f"pre $({a}) mid $(inputs.b) post", False))
    out.append(("pref:self", "$(self)", False))
    out.append(("pref:runtime", "$(runtime.cores)", False))
    # JS expressions $(...) with full_js
    for lab, a in atoms:
        out.append((f"js:{lab}", f"$({a})", True))
    ops = [("plus", "{0} + {1}"), ("ternary", "{0} ? {1} : inputs.c"), ("array", "[{0}, {1}]"), ("call", "Math.max({0}, {1})"),
           ("and", "{0} && {1}"), ("not", "!{0}"), ("paren2", "(({0}))"), ("obj", "({{k: {0}}}).k"), ("cmp", "{0} === {1}")]
    pool = atoms + CONST
    sel = pool if not quick else pool[::2] + CONST
    for (l1, a1), (l2, a2) in itertools.product(sel, repeat=2):
        for ol, o in (ops if not quick else ops[:4]):
            if "{1}" not in o and (l2, a2) != sel[0]:
                continue
            out.append((f"js-op:{ol}", "$(" + o.format(a1, a2) + ")", True))
    # function bodies ${...}
    for bl, b in BODIES:
        if "{A}" in b:
            for lab, a in (atoms if not quick else atoms[::3]) + CONST[:2]:
                out.append((f"body:{bl}", "${" + b.replace("{A}", a) + "}", True))
        else:
            out.append((f"body:{bl}", "${" + b + "}", True))
    # depth 3: a body inside which an operator expression appears
    if not quick:
        for bl, b in BODIES:
            if "{A}" not in b:
                continue
            for (l1, a1), (l2, a2) in itertools.product(atoms[::4], atoms[1::5]):
                out.append((f"body:{bl}", "${" + b.replace("{A}", f"({a1} + {a2})") + "}", True))
    seen, uniq = set(), []
    for it in out:
        if (it[1], it[2]) not in seen:
            seen.add((it[1], it[2]))
            uniq.append(it)
    return uniq


# ---------------------------------------------------------------------------------------------
# reference: node with a recording Proxy
# ---------------------------------------------------------------------------------------------

NODE_PRELUDE = r"""
var data = JSON.parse(require('fs').readFileSync(0, 'utf8'));
var out = [];
data.exprs.forEach(function (code) {
  var reads = {};
  var real = JSON.parse(JSON.stringify(data.inputs));
  var inputs = new Proxy(real, { get: function (t, k) { if (typeof k === 'string') { reads[k] = true; } return t[k]; } });
  var self = null, runtime = {cores: 1, ram: 1, outdir: '/o', tmpdir: '/t'};
  try {
    var f = new Function('inputs', 'self', 'runtime', code);
    var r = f(inputs, self, runtime);
    out.push({ok: true, reads: Object.keys(reads)});
  } catch (e) {
    out.push({ok: false, err: String(e), reads: Object.keys(reads)});
  }
});
process.stdout.write(JSON.stringify(out));
"""


def js_of(expr):
    """the JS function body CWL evaluates for one expression string (only whole-string or interpolated $()/${} forms)"""
    parts = []
    i = 0
    # split "pre $(e1) mid $(e2) post" into JS pieces; ${...} is always the whole string here
    if expr.startswith("${") and expr.endswith("}"):
        return expr[2:-1]
    while True:
        j = expr.find("$(", i)
        if j < 0:
            break
        depth, k = 0, j + 1
        while k < len(expr):
            if expr[k] == "(":
                depth += 1
            elif expr[k] == ")":
                depth -= 1
                if depth == 0:
                    break
            k += 1
        parts.append(expr[j + 2:k])
        i = k + 1
    return "return [" + ", ".join(f"({p})" for p in parts) + "];"


def node_eval(exprs):
    node = shutil.which("node") or shutil.which("nodejs")
    if not node:
        raise RuntimeError("node.js not found on PATH")
    payload = json.dumps({"inputs": INPUTS, "exprs": [js_of(e) for e in exprs]})
    p = subprocess.run([node, "-e", NODE_PRELUDE], input=payload, capture_output=True, text=True, timeout=300)
    if p.returncode != 0:
        raise RuntimeError(f"node failed: {p.stderr[:500]}")
    return json.loads(p.stdout)


def check_chunk(chunk):
    worker_init()
    from streamflow.cwl.utils import resolve_dependencies

    its = chunk["items"]
    ref = node_eval([e for _, e, _ in its])
    fails, distinct, n = {}, set(), 0
    for (label, expr, full_js), r in zip(its, ref):
        n += 1
        distinct.add((label, r["ok"]))
        if not r["ok"]:
            continue  # the property only speaks of expressions that evaluate successfully
        reads = {k for k in r["reads"] if k in INPUTS or not k.startswith("__")}
        reads = {k for k in reads if k in INPUTS}
        try:
            deps = resolve_dependencies(expr, full_js=full_js)
        except Exception as e:  # noqa
            key = f"C31|analysis-raises|{cause_of(label, expr, None)}"
            fails.setdefault(key, (key, f"{expr!r} evaluates in node (reads {sorted(reads)}) but the analysis raises "
                                        f"{type(e).__name__}: {e}", {"items": [[label, expr, full_js]]}))
            continue
        missing = reads - set(deps)
        if missing:
            key = f"C31|missed-read|{cause_of(label, expr, missing)}"
            fails.setdefault(key, (key, f"{expr!r} reads inputs fields {sorted(reads)} when evaluated, but the analysis returned "
                                        f"{sorted(deps)} (missing {sorted(missing)})", {"items": [[label, expr, full_js]]}))
    return ChunkResult(n, distinct, list(fails.values()), samples=[list(its[0])])


def cause_of(label, expr, missing):
    """recorded findings are keyed by cause (known_findings.json); everything else by production"""
    if label.startswith("body:computed-"):
        return "cause=computed-key"
    if label in ("body:alias-var", "body:alias-idx", "body:alias-chain", "body:let-alias-block"):
        return "cause=alias-through-var-declaration"
    if label.startswith("body:pass-inputs"):
        return "cause=inputs-passed-to-a-function"
    if "(inputs)" in expr and missing is not None and missing <= {"a"}:
        return "cause=parenthesised-inputs-object"
    return label


def main(argv=None):
    args = runner.tier_args(argv)
    worker_init()
    if args.replay:
        p = json.load(open(args.replay))["replay"]
        r = check_chunk({"items": [tuple(i) for i in p["items"]]})
        for k, m, _ in r.failures:
            print(f"VIOLATION property={PROP} replay={args.replay}\n  {k}: {m}")
        return 1 if r.failures else 0
    rep = runner.Report(PROP, args.tier, "exploration", runner.seed())
    its = items(args.tier)
    size = max(20, len(its) // 64)
    chunks = [{"items": its[i:i + size]} for i in range(0, len(its), size)]
    enumr.run_enum(rep, f"checks.{PROP}", chunks, workers=args.workers)
    rep.coverage.update({"expressions": len(its), "productions": len({l for l, _, _ in its})})
    rep.coverage["rule"] = (
        "all expressions of a grammar: parameter references $(inputs.k / ['k'] / [\"k\"] / nested / .length / [0], keys with "
        "space, dash, quote; interpolated strings), JavaScript $(...) over all pairs of atoms x 4-9 operators, and ${...} "
        "bodies (aliasing through var/assignment/chains, shadowing parameters, inputs passed to functions, closures, "
        "computed keys, branches, loops, callbacks, reassignment of inputs, comments/strings/members mentioning inputs); "
        "reference = node.js evaluation with inputs wrapped in a recording Proxy; oracle: evaluation succeeds => analysis "
        "returns and recorded reads are a subset of the returned set; distinct = distinct (production, node outcome)")
    rep.assumptions = ["only reads of top-level fields of `inputs` are compared (that is what the translator uses the set for)",
                       "expressions that node cannot evaluate are skipped (the property is conditional on successful evaluation)"]
    return rep.finish()


if __name__ == "__main__":
    sys.exit(main())
