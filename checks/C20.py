"""C20 -- provenance graph operations keep the graph consistent.

Explicit-state search over ALL graphs reachable on a small labelled node set: every operation of the
alphabet is applied to the real DirectedGraph / DirectedAcyclicGraph from every reachable state and
compared with a plain dict-of-sets reference; plus GraphMapper.move_token_to_root / replace_token."""
from __future__ import annotations

import itertools
import sys
from collections import deque

from mc import enumr, runner
from mc.enumr import ChunkResult

from streamflow.recovery.utils import DirectedAcyclicGraph, DirectedGraph, GraphMapper
from streamflow.core.workflow import Token

PROP = "C20"


# ---- reference ---------------------------------------------------------------------------------

class RefGraph:
    def __init__(self, succ=None):
        self.succ = {k: set(v) for k, v in (succ or {}).items()}

    def canon(self):
        return tuple(sorted((k, tuple(sorted(v))) for k, v in self.succ.items()))

    def preds(self, n):
        return {u for u, vs in self.succ.items() if n in vs}

    def add(self, u, v=None):
        self.succ.setdefault(u, set())
        if v is not None:
            self.succ.setdefault(v, set())
            self.succ[u].add(v)

    def remove(self, nodes, prune):
        """delete nodes + incident edges; when pruning, repeatedly delete predecessors of deleted nodes whose
        successor set became empty"""
        removed = []
        work = [n for n in nodes]
        while work:
            n = work.pop()
            if n not in self.succ:
                continue
            ps = self.preds(n)
            del self.succ[n]
            for u in self.succ:
                self.succ[u].discard(n)
            removed.append(n)
            if prune:
                for p in ps:
                    if p in self.succ and not self.succ[p]:
                        work.append(p)
        return removed

    def replace(self, a, b):
        if a not in self.succ:
            return "noop"
        if b in self.succ:
            return "error"
        self.succ[b] = {b if x == a else x for x in self.succ.pop(a)}
        for u in self.succ:
            if a in self.succ[u]:
                self.succ[u].discard(a)
                self.succ[u].add(b)
        return "ok"

    def promote(self, n):
        if n not in self.succ:
            return []
        dead = []
        for p in self.preds(n):
            self.succ[p].discard(n)
            if not self.succ[p]:
                dead.append(p)
        return self.remove(dead, True)


def build_real(canon, cls):
    g = cls("g")
    for u, vs in canon:
        g.add(u)
    for u, vs in canon:
        for v in vs:
            g.add(u, v)
    return g


def real_canon(g):
    return tuple(sorted((k, tuple(sorted(g.successors(k)))) for k in g.get_nodes()))


def check_views(g, ref, where, F):
    nodes = g.get_nodes()
    if nodes != set(ref.succ):
        F("nodes", f"{where}: nodes {sorted(nodes)} != reference {sorted(ref.succ)}")
        return
    for n in nodes:
        if g.successors(n) != ref.succ[n]:
            F("successors", f"{where}: successors({n}) = {sorted(g.successors(n))} != {sorted(ref.succ[n])}")
        if g.predecessors(n) != ref.preds(n):
            F("predecessors", f"{where}: predecessors({n}) = {sorted(g.predecessors(n))} != {sorted(ref.preds(n))} "
                              f"(views do not mirror each other)")
    if g.in_degree() != {n: len(ref.preds(n)) for n in ref.succ}:
        F("in_degree", f"{where}: in_degree {g.in_degree()}")
    if g.out_degree() != {n: len(v) for n, v in ref.succ.items()}:
        F("out_degree", f"{where}: out_degree {g.out_degree()}")
    if isinstance(g, DirectedAcyclicGraph):
        if g.get_sources() != {n for n in ref.succ if not ref.preds(n)}:
            F("sources", f"{where}: sources {sorted(g.get_sources())}")
        if g.get_sinks() != {n for n, v in ref.succ.items() if not v}:
            F("sinks", f"{where}: sinks {sorted(g.get_sinks())}")
    if g.empty() != (not ref.succ):
        F("empty", f"{where}: empty() = {g.empty()}")


def ops_for(nodes, dag, subsets_max):
    ops = []
    for u in nodes:
        ops.append(("add", u, None))
        for v in nodes:
            if dag and not u < v:
                continue  # acyclic alphabet: edges only from smaller to larger label
            ops.append(("add", u, v))
    for r in range(1, subsets_max + 1):
        for s in itertools.combinations(nodes, r):
            for prune in (True, False):
                ops.append(("remove", s, prune))
                if r > 1:
                    ops.append(("remove", tuple(reversed(s)), prune))
    for a in nodes:
        for b in nodes:
            if a != b:
                ops.append(("replace", a, b))
    if dag:
        for n in nodes:
            ops.append(("promote", n, None))
    return ops


def apply_both(canon, op, dag, fails):
    cls = DirectedAcyclicGraph if dag else DirectedGraph
    g = build_real(canon, cls)
    ref = RefGraph(dict(canon))

    def F(kind, msg):
        fails.append((f"C20|{'dag' if dag else 'digraph'}|{op[0]}|{kind}", f"{msg}; graph {canon} op {op}",
                      {"graph": [list(x) for x in canon], "op": list(op), "dag": dag}))

    where = f"after {op}"
    try:
        if op[0] == "add":
            g.add(op[1], op[2])
            ref.add(op[1], op[2])
        elif op[0] == "remove":
            got = g.remove_nodes(list(op[1]), prune_dead_end=op[2])
            want = ref.remove(list(op[1]), op[2])
            if set(got) != set(want) or len(got) != len(set(got)):
                F("returned", f"remove_nodes returned {sorted(got)} but reference removes {sorted(want)}")
        elif op[0] == "replace":
            expect = ref.replace(op[1], op[2])
            try:
                g.replace(op[1], op[2])
                if expect == "error":
                    F("replace-existing", "replace onto an existing node did not raise")
            except ValueError:
                if expect != "error":
                    F("replace-raises", "replace raised ValueError unexpectedly")
        elif op[0] == "promote":
            got = g.promote_to_source(op[1])
            want = ref.promote(op[1])
            if set(got) != set(want):
                F("returned", f"promote_to_source returned {sorted(got)} but reference removes {sorted(want)}")
            if op[1] in ref.succ and g.contains(op[1]) and g.predecessors(op[1]):
                F("still-has-preds", f"{op[1]} still has predecessors {g.predecessors(op[1])}")
    except Exception as e:  # noqa
        F("exception", f"{type(e).__name__}: {e}")
        return None
    check_views(g, ref, where, F)
    return ref.canon()


def check_chunk(chunk):
    dag, nodes, ops = chunk["dag"], chunk["nodes"], [tuple(tuple(x) if isinstance(x, list) else x for x in o) for o in chunk["ops"]]
    fails, n, nxt = [], 0, set()
    for canon in chunk["states"]:
        for op in ops:
            n += 1
            c2 = apply_both(canon, op, dag, fails)
            if c2 is not None:
                nxt.add(c2)
        if len(fails) > 40:
            break
    dedup = {}
    for k, m, p in fails:
        dedup.setdefault(k, (k, m, p))
    r = ChunkResult(n, set(), list(dedup.values()))
    r.extra = {}
    r.samples = []
    r.distinct = nxt  # successor states (master unions them = reachable set)
    return r


def explore(rep, dag, nodes, subsets_max, workers, max_states):
    import multiprocessing as mp

    ops = ops_for(nodes, dag, subsets_max)
    seen = {()}
    frontier = [()]
    total_trans = 0
    depth = 0
    enumr._init(f"checks.{PROP}")
    ctx = mp.get_context("fork")
    with ctx.Pool(workers or 16, initializer=enumr._init, initargs=(f"checks.{PROP}",)) as pool:
        while frontier and len(seen) < max_states:
            size = max(1, min(200, len(frontier) // 64 + 1))
            chunks = [{"dag": dag, "nodes": nodes, "ops": ops, "states": frontier[i:i + size]}
                      for i in range(0, len(frontier), size)]
            new = set()
            for res, err in pool.imap_unordered(enumr._run, chunks):
                if err:
                    rep.internal_errors.append(err)
                    continue
                total_trans += res.evaluations
                for k, m, p in res.failures:
                    rep.fail(k, m, p)
                new |= res.distinct
            frontier = sorted(new - seen)
            seen |= new
            depth += 1
    return len(seen), total_trans, depth, not frontier


def shaped_cases():
    """12-node chains/diamonds for pruning depth (single operations from hand-shaped graphs)."""
    cases = []
    chain = tuple((i, (i + 1,) if i < 11 else ()) for i in range(12))
    cases.append((chain, True))
    diamond = {0: (1, 2), 1: (3,), 2: (3,), 3: (4, 5), 4: (6,), 5: (6,), 6: (7,), 7: (8, 9), 8: (10,), 9: (10,), 10: (11,), 11: ()}
    cases.append((tuple(sorted(diamond.items())), True))
    fan = {0: tuple(range(1, 11)), **{i: (11,) for i in range(1, 11)}, 11: ()}
    cases.append((tuple(sorted(fan.items())), True))
    return cases


def main(argv=None):
    args = runner.tier_args(argv)
    if args.replay:
        import json

        p = json.load(open(args.replay))["replay"]
        fails = []
        canon = tuple((u, tuple(vs)) for u, vs in p["graph"])
        op = tuple(tuple(x) if isinstance(x, list) else x for x in p["op"])
        apply_both(canon, op, p["dag"], fails)
        for k, m, _ in fails:
            print(f"VIOLATION property={PROP} replay={args.replay}\n  {k}: {m}")
        return 1 if fails else 0
    rep = runner.Report(PROP, args.tier, "model_checking", runner.seed())
    quick = args.tier == "quick"
    nodes = [0, 1, 2, 3] if quick else [0, 1, 2, 3, 4]
    s1, t1, d1, c1 = explore(rep, True, nodes, 2 if quick else len(nodes), args.workers, 200000)
    s2, t2, d2, c2 = explore(rep, False, [0, 1, 2], 2 if quick else 3, args.workers, 10 ** 7)
    if not quick:
        # 4 labelled nodes: the reachable set (<= 16 * 65536 graphs) is explored up to a stated cap
        s2b, t2b, d2b, c2b = explore(rep, False, [0, 1, 2, 3], 1, args.workers, 150000)
        rep.coverage.update({"digraph4_states": s2b, "digraph4_transitions": t2b, "digraph4_closed": c2b})
        t2 += t2b
    # hand-shaped 12-node graphs
    fails, n3 = [], 0
    for canon, dag in shaped_cases():
        ns = [u for u, _ in canon]
        for op in ops_for(ns[:12], dag, 1) + [("remove", (11, 10), True), ("remove", (3, 6), True), ("remove", (11,), False)]:
            if op[0] == "add":
                continue
            n3 += 1
            apply_both(canon, op, dag, fails)
    for k, m, p in fails:
        rep.fail(k, m, p)
    # GraphMapper.move_token_to_root / replace_token over small token DAGs
    n4 = mapper_checks(rep, quick)
    rep.coverage.update({
        "states": s1 + s2, "transitions": t1 + t2 + n3 + n4, "traces_validated_against_impl": t1 + t2 + n3 + n4,
        "evaluations": t1 + t2 + n3 + n4, "distinct_nontrivial": s1 + s2,
        "dag_states": s1, "dag_bfs_depth": d1, "dag_closed": c1, "digraph_states": s2, "digraph_bfs_depth": d2,
        "digraph_closed": c2, "shaped_ops": n3, "mapper_ops": n4, "exhaustive": bool(c1 and c2),
        "samples": [{"graph": [[0, [1, 2]], [1, [3]], [2, [3]], [3, []]], "op": ["remove", [3], True]},
                    {"graph": [[0, [1]], [1, [0]]], "op": ["replace", 0, 3]}],
        "rule": "BFS closure: from the empty graph, every operation (add node/edge, remove_nodes of every subset up "
                "to the size bound with and without pruning in both orders, replace a->b incl. fresh b, "
                "promote_to_source) applied to the real class from EVERY reachable graph on the labelled node set "
                "(DAG alphabet: edges small->large label; DirectedGraph: arbitrary incl. self loops and cycles); "
                "canonical state = sorted adjacency (the classes hold nothing else); reference = dict of successor "
                "sets; plus 12-node chain/diamond/fan graphs and GraphMapper token operations",
    })
    rep.assumptions = ["node labels are small integers; graphs with more than 5 labelled nodes only through the "
                       "12-node hand-shaped cases"]
    return rep.finish()


def mapper_checks(rep, quick):
    """GraphMapper.move_token_to_root / replace_token keep dag_tokens, port_tokens, token maps consistent."""
    n = 0
    shapes = []
    nodes = [1, 2, 3, 4]
    edges_all = [(a, b) for a in nodes for b in nodes if a < b]
    rng = range(0, 2 ** len(edges_all), 1 if not quick else 3)
    for mask in rng:
        edges = [e for i, e in enumerate(edges_all) if mask >> i & 1]
        shapes.append(edges)
    for edges in shapes:
        for target in nodes:
            n += 1
            m = GraphMapper(None)
            toks = {}
            for i in nodes:
                t = Token(i, tag=f"0.{i}")
                t.persistent_id = i
                toks[i] = t
                m.port_tokens.setdefault(f"p{i % 2}", set()).add(i)
                m.token_instances[i] = t
                m.token_availability[i] = False
                m.dag_tokens.add(i)
                m.dcg_ports.add(f"p{i % 2}")
                m.port_name_ids.setdefault(f"p{i % 2}", set()).add(i % 2)
            for a, b in edges:
                m.dag_tokens.add(a, b)
            ref = RefGraph({i: {b for a, b in edges if a == i} for i in nodes})
            removed = set(ref.promote(target))
            try:
                m.move_token_to_root(target)
            except Exception as e:  # noqa
                rep.fail("C20|mapper|move_token_to_root|exception", f"{type(e).__name__}: {e} edges={edges} target={target}",
                         {"edges": edges, "target": target})
                continue
            live = set(nodes) - removed
            problems = []
            if m.dag_tokens.get_nodes() != live:
                problems.append(f"dag nodes {sorted(m.dag_tokens.get_nodes())} != {sorted(live)}")
            if set(m.token_instances) != live or set(m.token_availability) != live:
                problems.append(f"token maps keep removed tokens: instances {sorted(m.token_instances)}")
            flat = set().union(*m.port_tokens.values()) if m.port_tokens else set()
            if flat != live:
                problems.append(f"port_tokens {m.port_tokens} != live {sorted(live)}")
            if any(not v for v in m.port_tokens.values()):
                problems.append(f"empty port left in port_tokens {m.port_tokens}")
            if set(m.port_tokens) != set(m.dcg_ports.get_nodes()):
                problems.append(f"dcg_ports {sorted(m.dcg_ports.get_nodes())} vs port_tokens {sorted(m.port_tokens)}")
            if problems:
                rep.fail("C20|mapper|move_token_to_root", f"{problems[0]}; edges={edges} target={target}",
                         {"edges": edges, "target": target})
    return n


if __name__ == "__main__":
    sys.exit(main())
