"""C03 -- ports deliver every token to every consumer exactly once, in order.

E2: BFS over all sequences of put / get / (late) subscribe / add-boundary-rule operations on the real
Port, FilterTokenPort and InterWorkflowPort; reference model = one list per consumer."""
from __future__ import annotations

import asyncio
import sys

from mc import opsearch, runner, wfkit
from mc.loop import execute
from mc.opsearch import StepResult

from streamflow.core.workflow import Port, Status, Token, Workflow
from streamflow.workflow.port import BoundaryAction, FilterTokenPort, InterWorkflowPort, JobPort
from streamflow.workflow.token import TerminationToken

PROP = "C03"


def worker_init():
    wfkit.quiet_logging()


class FakeWorkflow:
    """Ports only need ``workflow`` as a back reference here."""
    context = None
    ports = {}
    steps = {}


ACTIONS = {"P": BoundaryAction.PROPAGATE, "T": BoundaryAction.TERMINATE,
           "PT": BoundaryAction.PROPAGATE | BoundaryAction.TERMINATE}


def _odd(tag):
    return int(tag.split(".")[-1]) % 2 == 1


class Ref:
    """Reference model: what each port must have delivered so far, as lists of token labels."""

    def __init__(self, cfg):
        self.cfg = cfg
        self.delivered = {"P": [], "Q": [], "R": []}
        self.rules = []  # [target, remaining set, action]

    def _act(self, rule, label):
        target, _, action = rule
        if "P" in action:
            self.delivered[target].append(label)
        if "T" in action:
            self.delivered[target].append("TERM:RECOVERED")

    def put(self, label):
        kind = self.cfg["kind"]
        if label.startswith("TERM"):
            self.delivered["P"].append(label)
            return
        if kind == "filter":
            if _odd(label):
                self.delivered["P"].append(label)
            return
        if kind != "inter":
            self.delivered["P"].append(label)
            return
        matched_self = False
        for rule in self.rules:
            # a rule fires exactly when its tag set becomes complete, i.e. on the token that removes its last pending tag
            if label in rule[1]:
                rule[1].discard(label)
                if not rule[1]:
                    self._act(rule, label)
                    if rule[0] == "P":
                        matched_self = True
        if not matched_self:
            self.delivered["P"].append(label)

    def add_rule(self, r):
        target, tags, action = r
        rule = [target, set(tags), action]
        self.rules.append(rule)
        for label in [x for x in self.delivered["P"] if not x.startswith("TERM")]:
            if label in rule[1]:
                rule[1].discard(label)
                if not rule[1]:
                    self._act(rule, label)


def label_of(tok):
    if isinstance(tok, TerminationToken):
        return f"TERM:{tok.value.name}"
    return tok.tag


async def _apply(loop, cfg, hist, res):
    loop.mute = True
    wf = FakeWorkflow()
    kind = cfg["kind"]
    if kind == "plain":
        P = Port(wf, "P") if not cfg.get("jobport") else JobPort(wf, "P")
    elif kind == "filter":
        P = FilterTokenPort(wf, "P", filter_function=lambda t: _odd(t.tag))
    else:
        P = InterWorkflowPort(wf, "P")
    Q = Port(wf, "Q")
    # R: a DIFFERENT port object with the SAME name as Q (the same port of another recovery workflow: workflows built
    # by RollbackFailureManager are clones, so their ports share names)
    R = Port(FakeWorkflow(), "Q")
    ports = {"P": P, "Q": Q, "R": R}
    ref = Ref(cfg)
    ncons = cfg["consumers"]
    names = [("P", f"c{j}") for j in range(ncons)] + ([("Q", "q0")] if kind == "inter" else []) + (
        [("R", "r0")] if kind == "inter" and any(r[0] == "R" for r in cfg.get("rules", [])) else [])
    received = {n: [] for n in names}
    pending = {n: None for n in names}
    tokens = [Token(i, tag=f"0.{i}") for i in range(cfg["tokens"])]
    nput = 0
    term_put = False
    problems = []

    def on_done(name):
        def cb(task):
            if not task.cancelled() and task.exception() is None:
                received[name].append(label_of(task.result()))
            pending[name] = None
        return cb

    def issue_get(name):
        t = asyncio.create_task(ports[name[0]].get(name[1]))
        pending[name] = t
        t.add_done_callback(on_done(name))

    async def settle():
        await loop.gate("quiesce", prio=9)

    def check(where):
        for name in names:
            want = ref.delivered[name[0]]
            got = received[name]
            if got != want[: len(got)]:
                problems.append(("order", f"after {where}: consumer {name} received {got} but the port must have "
                                          f"delivered {want} (prefix mismatch: duplicate, loss or reordering)"))
            elif pending[name] is not None and len(got) < len(want):
                problems.append(("stuck", f"after {where}: consumer {name} is blocked in get() with {got} received "
                                          f"although {want[len(got):]} is undelivered to it"))
        if cfg["kind"] in ("plain", "filter"):
            for name in names:
                got = received[name]
                if any(x.startswith("TERM") for x in got[:-1]):
                    problems.append(("afterterm", f"consumer {name} observed tokens after a termination: {got}"))

    for op in hist:
        if op[0] == "put":
            if nput < len(tokens):
                tok = tokens[nput]
                nput += 1
            else:
                tok = TerminationToken()
                term_put = True
            ref.put(label_of(tok))
            P.put(tok)
        elif op[0] == "get":
            name = names[op[1]]
            issue_get(name)
        elif op[0] == "rule":
            target, tags, action = cfg["rules"][op[1]]
            ref.add_rule((target, tags, action))
            P.add_inter_port(ports[target], list(tags), ACTIONS[action])
        await settle()
        check(op)
    # enabled operations from here
    enabled = []
    if not term_put:
        enabled.append(["put"])
    for i, name in enumerate(names):
        if pending[name] is None:
            # a consumer that already saw the final termination stops reading (as every step does)
            if not (received[name] and received[name][-1] == "TERM:COMPLETED"):
                enabled.append(["get", i])
    used = {op[1] for op in hist if op[0] == "rule"}
    for r in range(len(cfg.get("rules", []))):
        if r not in used:
            # self-targeting rules are installed before the port carries tokens (as _inject_tokens does)
            if cfg["rules"][r][0] == "P" and nput > 0:
                continue
            enabled.append(["rule", r])
    res["enabled"] = enabled
    res["problems"] = problems
    res["canon"] = (nput, term_put, tuple((len(received[n]), pending[n] is not None) for n in names),
                    tuple((r[0], tuple(sorted(r[1])), r[2]) for r in ref.rules),
                    tuple(sorted(used)))
    res["obs"] = tuple(tuple(received[n]) for n in names)
    for n, t in pending.items():
        if t is not None:
            t.cancel()


def step(cfg, hist) -> StepResult:
    res = {}
    ex = execute(lambda loop: _apply(loop, cfg, hist, res), [])
    base = f"C03|{cfg['kind']}" + ("|job" if cfg.get("jobport") else "")
    fails = []
    if ex.error:
        fails.append((base + "|error", f"{ex.error[0]}: {ex.error[1]!r} after {hist}"))
        return StepResult(("err", tuple(map(tuple, hist))), fails, [], len(hist))
    if ex.hang:
        fails.append((base + "|hang", f"driver hangs after {hist}: {ex.pending}"))
        return StepResult(("hang", tuple(map(tuple, hist))), fails, [], len(hist))
    for kind, msg in res["problems"][:3]:
        fails.append((f"{base}|{kind}", msg + f"; history {hist}"))
    return StepResult(res["canon"], fails, res["enabled"], 1, obs=hash(res["obs"]))


def configs_for(tier):
    cfgs = []
    ks = [1, 2, 3] if tier == "quick" else [1, 2, 3, 4]
    for k in ks:
        for n in ([0, 2, 3] if tier == "quick" else [0, 1, 2, 3, 4]):
            if k * (n + 1) > (9 if tier == "quick" else 15):
                continue
            cfgs.append({"kind": "plain", "consumers": k, "tokens": n})
    cfgs.append({"kind": "plain", "consumers": 2, "tokens": 2, "jobport": True})
    # long token lists with late subscribers (replay of token_list beyond small constants)
    cfgs.append({"kind": "plain", "consumers": 1, "tokens": 11, "depth": 24})
    cfgs.append({"kind": "plain", "consumers": 2, "tokens": 9, "depth": 16 if tier == "quick" else 30})
    for k in (1, 2):
        cfgs.append({"kind": "filter", "consumers": k, "tokens": 3 if tier == "quick" else 4})
    rule_sets = [
        [["Q", ["0.0", "0.1"], "P"]],
        [["P", ["0.1"], "PT"]],
        [["P", ["0.0", "0.1"], "PT"], ["Q", ["0.1"], "P"]],
        [["Q", ["0.1"], "P"], ["P", ["0.1"], "PT"]],
        [["P", ["0.0"], "T"], ["Q", ["0.0"], "P"]],
        [["Q", ["0.0"], "P"], ["Q", ["0.1"], "PT"]],
        # two waiters of the same kind: same target and action with different tags; same-named ports of two workflows;
        # the very same rule registered twice (seeded defects C16-1 and C19-1 "de-duplicate" such rules)
        [["Q", ["0.0"], "P"], ["Q", ["0.1"], "P"]],
        [["Q", ["0.1"], "P"], ["Q", ["0.0"], "P"]],
        [["Q", ["0.0"], "P"], ["R", ["0.0"], "P"]],
        [["Q", ["0.1"], "P"], ["R", ["0.1"], "P"]],
        [["Q", ["0.0"], "P"], ["Q", ["0.0"], "P"]],
    ]
    for rs in rule_sets:
        cfgs.append({"kind": "inter", "consumers": 1, "tokens": 2, "rules": rs})
    if tier == "thorough":
        for rs in rule_sets:
            cfgs.append({"kind": "inter", "consumers": 2, "tokens": 3, "rules": rs})
    return cfgs


def main(argv=None):
    args = runner.tier_args(argv)
    worker_init()
    if args.replay:
        import json

        payload = json.load(open(args.replay))["replay"]
        r = step(payload["config"], payload["history"])
        for k, m in r.failures:
            print(f"VIOLATION property={PROP} replay={args.replay}\n  {k}: {m}")
        return 1 if r.failures else 0
    rep = runner.Report(PROP, args.tier, "model_checking", runner.seed())
    cfgs = configs_for(args.tier)
    depth = 10 if args.tier == "quick" else 14
    st = opsearch.bfs(f"checks.{PROP}", cfgs, depth, workers=args.workers,
                      time_cap=args.time_cap or (200 if args.tier == "quick" else 1200))
    opsearch.bfs_report(rep, sys.modules[__name__], cfgs, st, depth,
                        samples=[{"config": cfgs[0], "history": [["get", 0], ["put"], ["put"], ["get", 0]]},
                                 {"config": cfgs[-1], "history": [["rule", 0], ["put"], ["get", 0], ["put"]]}])
    rep.coverage["rule"] = (
        "BFS over all sequences of put(next token)/get(consumer j, first get = subscription)/add_inter_port(rule r) up "
        "to the depth, every history replayed on fresh real port objects on the controlled loop run to quiescence "
        "after each operation; states de-duplicated on (puts done, per-consumer (received count, blocked), rule "
        "remaining-tag sets): every field the port methods read is a function of these")
    rep.assumptions = [
        "termination token is put last by the driver (as every step does)",
        "self-targeting boundary rules are installed before the port carries tokens (as _inject_tokens does)",
        "reference for inter-workflow ports: a rule fires exactly once, on the token that completes its tag set (the "
        "property: 'exactly when the boundary tag set is complete'); "
        "OLD reading, kept for the record: a rule is complete once each of its tags was seen; every token seen "
        "while complete triggers its action on the target; a token handled by a complete self rule is not also "
        "delivered plainly",
    ]
    return rep.finish()


if __name__ == "__main__":
    sys.exit(main())
