"""C15 -- each scheduled job gets its own existing, registered working directories."""
from __future__ import annotations

import os
import sys

from checks import _exec
from mc import runner, wfkit
from mc.explore import Outcome

from streamflow.workflow.token import JobToken

PROP = "C15"


def worker_init():
    wfkit.quiet_logging()
    wfkit.patch_port_put()


@_exec.observer("jobdirs")
async def observe_jobdirs(loop, res):
    wf, ctx = res["wf"], res["ctx"]
    problems, jobs = [], {}
    fixed = res["workdir"] + "/fixed-"
    for port in wf.ports.values():
        for t in port.token_list:
            if isinstance(t, JobToken):
                jobs[t.value.name] = t.value
    for name, job in sorted(jobs.items()):
        dirs = {"input": job.input_directory, "output": job.output_directory, "tmp": job.tmp_directory}
        try:
            locs = ctx.scheduler.get_locations(name)
        except Exception as e:  # noqa
            problems.append(("noalloc", f"job {name}: {e}"))
            continue
        want_locs = res["wf"].steps.get(name.rsplit("/", 1)[0] + "/__schedule__")
        if want_locs is not None:
            need = want_locs.binding_config.targets[0].locations
            if len(locs) != need:
                problems.append(("nlocations", f"job {name} is allocated on {len(locs)} locations, its target asks for {need}"))
        for kind, d in dirs.items():
            if not isinstance(d, str) or not d:
                problems.append(("empty", f"job {name} {kind} directory is {d!r}"))
                continue
            if not os.path.isdir(d):
                problems.append(("missing", f"job {name} {kind} directory {d} does not exist"))
            for loc in locs:
                if not ctx.data_manager.get_data_locations(d, loc.deployment, loc.name):
                    problems.append(("unregistered", f"job {name} {kind} directory {d} not registered on {loc.name}"))
        if len(set(dirs.values())) != 3:
            problems.append(("samejob", f"job {name} directories not distinct: {dirs}"))
    names = sorted(jobs)
    for i, a in enumerate(names):
        da = {jobs[a].input_directory, jobs[a].output_directory, jobs[a].tmp_directory}
        for b in names[i + 1:]:
            db = {jobs[b].input_directory, jobs[b].output_directory, jobs[b].tmp_directory}
            shared = {d for d in da & db if d and not d.startswith(fixed)}
            if shared:
                problems.append(("shared", f"jobs {a} and {b} share directories {sorted(shared)}"))
    for name, job in jobs.items():
        if name.startswith("/fx/"):
            fix = res.get("spec", {}).get("fix", "in+out+tmp").split("+")
            for k, got in (("in", job.input_directory), ("out", job.output_directory), ("tmp", job.tmp_directory)):
                if k in fix and os.path.realpath(fixed + k) != os.path.realpath(got):
                    problems.append(("fixed", f"job {name}: binding fixes {fixed + k} but job got {got}"))
                if k not in fix and got.startswith(fixed):
                    problems.append(("fixed", f"job {name}: {k} directory is not fixed by the binding but job got {got}"))
    res["dir_problems"] = problems
    res["dir_jobs"] = len(jobs)


def run_case(params, prefix):
    params = dict(params, observe=["jobdirs"])
    ex, res = _exec.run_once(params, prefix)
    fails = []
    base = f"C15|{_exec.spec_key(params['spec'])}"
    if ex.hang:
        fails.append((base + "|hang", f"{ex.pending}"))
    elif ex.error:
        fails.append((base + "|error", f"{ex.error}"))
    elif res.get("raised"):
        fails.append((base + "|raised", res["raised"]))
    else:
        for kind, msg in res.get("dir_problems", []):
            fails.append((f"{base}|{kind}", msg))
    obs = res.get("dir_jobs")
    _exec.clean_res(res)
    return Outcome(ex.trace, fails[:5], obs=obs, steps=ex.steps, states=ex.states, signature=ex.signature)


def cases_for(tier):
    specs = [{"prog": "scatterjobs", "n": 1}, {"prog": "scatterjobs", "n": 3}, {"prog": "jobs", "k": 2},
             {"prog": "twojobs"}, {"prog": "fixeddirs", "n": 2}, {"prog": "fixeddirs", "n": 2, "fix": "in"},
             {"prog": "fixeddirs", "n": 2, "fix": "out"},
             {"prog": "multiloc", "n": 2, "locs": 2, "nlocs": 3}, {"prog": "multiloc", "n": 1, "locs": 3, "nlocs": 3}]
    if tier == "thorough":
        specs += [{"prog": "scatterjobs", "n": 6}, {"prog": "seq_job_scatterjobs", "n": 2},
                  {"prog": "loopjob", "pred": "lt3"}, {"prog": "fixeddirs", "n": 3}, {"prog": "fixeddirs", "n": 3, "fix": "in"}, {"prog": "fixeddirs", "n": 3, "fix": "in+out"},
                  {"prog": "fixeddirs", "n": 2, "fix": "tmp"}, {"prog": "fixeddirs", "n": 2, "fix": "in+tmp"}, {"prog": "fixeddirs", "n": 2, "fix": "out+tmp"},
                  {"prog": "multiloc", "n": 3, "locs": 2, "nlocs": 4}]
    cases = [{"spec": s} for s in specs]
    for c in cases:
        if c["spec"].get("n", 0) >= 6 or (c["spec"].get("fix") and tier == "thorough"):
            c["bound"] = 1  # the partially fixed variants differ from `fixeddirs` only in the binding: one deviation
    return cases


def main(argv=None):
    args = runner.tier_args(argv)
    worker_init()
    if args.replay:
        return _exec.replay_main(PROP, sys.modules[__name__], args.replay)
    cases = cases_for(args.tier)
    bound = 1 if args.tier == "quick" else 2
    cb = {i: c["bound"] for i, c in enumerate(cases) if "bound" in c}
    return _exec.generic_main(
        PROP, sys.modules[__name__], "model_checking", cases, bound, cb,
        rule="programs with concurrently scheduled jobs (scatter of 1..6 jobs, steps sharing a deployment, explicit "
             "directories) x all schedules within the deviation bound; oracle on every JobToken: three non-empty, "
             "existing, registered, pairwise distinct directories, disjoint across jobs unless fixed by the binding",
        assumptions=_exec.ENV_ASSUMPTIONS + ["local location only under the controlled loop (the shell-based remote "
                                             "location needs real subprocesses: covered by C24/C22 harness, not here)"],
        args=args, time_cap=280 if args.tier == "quick" else 1500)


if __name__ == "__main__":
    sys.exit(main())
