"""C09 -- database reads always reflect the latest writes.

E2: BFS over insert / update / mutate-a-returned-row histories on the real SqliteDatabase; after every
operation EVERY get_* is compared with an independent reader (raw SQL on the same SQLite connection)."""
from __future__ import annotations

import copy
import json
import sys

from mc import opsearch, runner, wfkit
from mc.loop import execute
from mc.opsearch import StepResult

from streamflow.core.persistence import DependencyType
from streamflow.core.workflow import Port, Step, Token, Workflow
from streamflow.core.deployment import Target

PROP = "C09"


def worker_init():
    wfkit.quiet_logging()


# ---- independent reader -------------------------------------------------------------------------

def raw_rows(db, table):
    cur = db.execute(f"SELECT * FROM {table}")
    cols = [d[0] for d in cur.description]
    return [dict(zip(cols, r)) for r in cur.fetchall()]


JSON_COLS = {"workflow": ["params"], "port": ["params"], "step": ["params"], "token": ["value"],
             "deployment": ["config", "scheduling_policy"], "target": ["params"], "filter": ["config"]}


def ref_row(db, table, id_):
    rows = [r for r in raw_rows(db, table) if r["id"] == id_]
    if not rows:
        return None
    r = rows[0]
    for c in JSON_COLS.get(table, []):
        r[c] = json.loads(r[c])
    if table == "deployment":
        r["wraps"] = json.loads(r["wraps"]) if r["wraps"] else None
    if table == "token":
        r["recoverable"] = any(x["id"] == id_ for x in raw_rows(db, "recoverable"))
    return r


def norm(x):
    if x is None:
        return None
    if isinstance(x, (list, tuple)):
        return [norm(y) for y in x]
    if isinstance(x, dict):
        return {k: norm(v) for k, v in x.items()}
    if hasattr(x, "keys"):
        return {k: norm(x[k]) for k in x.keys()}
    return x


async def compare_all(sfdb, raw, ids, problems, where):
    """every getter against the independent reader"""

    async def cmp(name, got, want):
        g, w = norm(got), norm(want)
        if g != w:
            problems.append((name, f"{where}: {name} returned {g!r} but the database holds {w!r}"))

    for table, getter in (("workflow", sfdb.get_workflow), ("port", sfdb.get_port), ("step", sfdb.get_step),
                          ("token", sfdb.get_token), ("deployment", sfdb.get_deployment),
                          ("target", sfdb.get_target), ("filter", sfdb.get_filter)):
        for i in ids.get(table, []):
            await cmp(f"get_{table}", await getter(i), ref_row(raw, table, i))
    for i in ids.get("execution", []):
        await cmp("get_execution", await sfdb.get_execution(i), ref_row(raw, "execution", i))
    prov = raw_rows(raw, "provenance")
    dep = raw_rows(raw, "dependency")
    for t in ids.get("token", []):
        await cmp("get_dependees", sorted(norm(await sfdb.get_dependees(t)), key=str),
                  sorted([p for p in prov if p["depender"] == t], key=str))
        await cmp("get_dependers", sorted(norm(await sfdb.get_dependers(t)), key=str),
                  sorted([p for p in prov if p["dependee"] == t], key=str))
        tok = ref_row(raw, "token", t)
        if tok and tok["port"] is not None:
            await cmp("get_port_from_token", await sfdb.get_port_from_token(t), ref_row(raw, "port", tok["port"]))
    for s in ids.get("step", []):
        await cmp("get_input_ports", sorted(norm(await sfdb.get_input_ports(s)), key=str),
                  sorted([d for d in dep if d["step"] == s and d["type"] == DependencyType.INPUT.value], key=str))
        await cmp("get_output_ports", sorted(norm(await sfdb.get_output_ports(s)), key=str),
                  sorted([d for d in dep if d["step"] == s and d["type"] == DependencyType.OUTPUT.value], key=str))
        await cmp("get_executions_by_step", sorted(norm(await sfdb.get_executions_by_step(s)), key=str),
                  sorted([e for e in raw_rows(raw, "execution") if e["step"] == s], key=str))
    for p in ids.get("port", []):
        await cmp("get_input_steps", sorted(norm(await sfdb.get_input_steps(p)), key=str),
                  sorted([d for d in dep if d["port"] == p and d["type"] == DependencyType.OUTPUT.value], key=str))
        await cmp("get_output_steps", sorted(norm(await sfdb.get_output_steps(p)), key=str),
                  sorted([d for d in dep if d["port"] == p and d["type"] == DependencyType.INPUT.value], key=str))
        await cmp("get_port_tokens", sorted(await sfdb.get_port_tokens(p)),
                  sorted(t["id"] for t in raw_rows(raw, "token") if t["port"] == p))
    for w in ids.get("workflow", []):
        await cmp("get_workflow_ports", sorted(norm(await sfdb.get_workflow_ports(w)), key=str),
                  sorted([ref_row(raw, "port", r["id"]) for r in raw_rows(raw, "port") if r["workflow"] == w], key=str))
        await cmp("get_workflow_steps", sorted(norm(await sfdb.get_workflow_steps(w)), key=str),
                  sorted([ref_row(raw, "step", r["id"]) for r in raw_rows(raw, "step") if r["workflow"] == w], key=str))
        name = ref_row(raw, "workflow", w)["name"]
        await cmp("get_workflows_by_name", sorted(norm(await sfdb.get_workflows_by_name(name)), key=str),
                  sorted([ref_row(raw, "workflow", r["id"]) for r in raw_rows(raw, "workflow") if r["name"] == name], key=str))


# ---- operations -----------------------------------------------------------------------------------

UPDATES = {
    "workflow": [{"status": 2}, {"name": "renamed"}, {"params": json.dumps({"config": {"z": 1}, "output_ports": {}})}],
    "port": [{"name": "p-renamed"}, {"params": json.dumps({"k": {"n": 9}})}, {"type": "x.Y"}],
    "step": [{"status": 4}, {"name": "s-renamed"}, {"params": json.dumps({"k": {"n": 9}})}],
    "deployment": [{"workdir": "/new"}, {"config": json.dumps({"image": "new", "n": {"m": 2}})}, {"lazy": False}],
    "target": [{"locations": 3}, {"workdir": "/t"}, {"params": json.dumps({"a": {"b": 1}})}],
    "filter": [{"name": "f-renamed"}, {"config": json.dumps({"rules": [{"x": 1}]})}],
    "execution": [{"status": 4}, {"end_time": 99}],
}
NESTED_KEY = {"workflow": "params", "port": "params", "step": "params", "token": "value", "deployment": "config",
              "target": "params", "filter": "config"}


async def apply_op(sfdb, ids, op):
    kind = op[0]
    if kind == "add":
        t = op[1]
        n = len(ids.get(t.rstrip("_r"), []))
        if t == "workflow":
            i = await sfdb.add_workflow(name=f"w{n}", params={"config": {"a": {"b": n}}, "output_ports": {}}, status=0, type=Workflow)
        elif t == "port":
            i = await sfdb.add_port(name=f"p{n}", workflow_id=ids["workflow"][0], type=Port, params={"k": {"n": n}, "l": [1, {"m": 2}]})
        elif t == "step":
            i = await sfdb.add_step(name=f"s{n}", workflow_id=ids["workflow"][0], status=0, type=Step, params={"k": {"n": n}})
        elif t in ("token", "token_r"):
            i = await sfdb.add_token(tag=f"0.{n}", type=Token, value={"v": {"n": n}, "l": [n]},
                                     port=(ids.get("port") or [None])[0], recoverable=(t == "token_r"))
            t = "token"
        elif t == "deployment":
            i = await sfdb.add_deployment(name=f"d{n}", type="docker", config={"image": "x", "n": {"m": n}}, external=False,
                                          lazy=True, scheduling_policy={"name": "__DEFAULT__", "type": "data_locality", "config": {}},
                                          workdir=None, wraps={"deployment": "dd"} if n else None)
        elif t == "target":
            i = await sfdb.add_target(deployment=ids["deployment"][0], type=Target, params={"a": {"b": n}}, locations=1,
                                      service=None, workdir=None)
        elif t == "filter":
            i = await sfdb.add_filter(name=f"f{n}", type="matching", config={"rules": [{"x": n}]})
        elif t == "execution":
            i = await sfdb.add_execution(step_id=ids["step"][0], job_token_id=(ids.get("token") or [0])[0], cmd=f"cmd{n}")
        elif t == "provenance":
            await sfdb.add_provenance(inputs=[ids["token"][0]], token=ids["token"][1])
            ids.setdefault("provenance", []).append(1)
            return
        elif t == "dependency":
            await sfdb.add_dependency(step=ids["step"][0], port=ids["port"][n % len(ids["port"])],
                                      type=DependencyType.INPUT if n == 0 else DependencyType.OUTPUT, name=f"dep{n}")
            ids.setdefault("dependency", []).append(1)
            return
        ids.setdefault(t, []).append(i)
    elif kind == "upd":
        t, row, var = op[1], op[2], op[3]
        await getattr(sfdb, f"update_{t}")(ids[t][row], dict(UPDATES[t][var]))
    elif kind == "get":
        await getattr(sfdb, f"get_{op[1]}")(ids[op[1]][op[2]])
    elif kind in ("bulk", "mutbulk"):
        w = ids["workflow"][0]
        rows = await (sfdb.get_workflow_ports(w) if op[1] == "ports" else sfdb.get_workflow_steps(w))
        if kind == "mutbulk":
            for r in rows:
                if op[2] == "top":
                    for k in list(r.keys()):
                        if k != "id":
                            r[k] = "MUTATED"
                else:
                    _poison(r["params"])
    elif kind == "mut":
        t, row, level = op[1], op[2], op[3]
        r = await getattr(sfdb, f"get_{t}")(ids[t][row])
        if level == "top":
            for k in list(r.keys()):
                if k != "id":
                    r[k] = "MUTATED"
        else:
            tgt = r[NESTED_KEY[t]]
            _poison(tgt)


def _poison(x):
    if isinstance(x, dict):
        for k in list(x):
            if isinstance(x[k], (dict, list)):
                _poison(x[k])
            else:
                x[k] = "MUTATED"
        x["__extra__"] = "MUTATED"
    elif isinstance(x, list):
        for i, v in enumerate(x):
            if isinstance(v, (dict, list)):
                _poison(v)
            else:
                x[i] = "MUTATED"
        x.append("MUTATED")


def enabled_ops(cfg, ids, hist):
    ops = []
    for t in cfg["tables"]:
        base = t[:-2] if t.endswith("_r") else t
        n = len(ids.get(base, []))
        need = {"port": ["workflow"], "step": ["workflow"], "target": ["deployment"], "execution": ["step"],
                "provenance": ["token"], "dependency": ["step", "port"]}.get(base, [])
        if any(not ids.get(x) for x in need):
            continue
        if base == "provenance":
            if len(ids.get("token", [])) >= 2 and not ids.get("provenance"):
                ops.append(["add", t])
            continue
        if base == "dependency":
            if len(ids.get("dependency", [])) < 2:
                ops.append(["add", t])
            continue
        if n < cfg.get("rows", 2):
            ops.append(["add", t])
    for t in cfg["tables"]:
        if t in UPDATES:
            for row in range(len(ids.get(t, []))):
                for var in range(len(UPDATES[t])):
                    ops.append(["upd", t, row, var])
        if t in NESTED_KEY:
            for row in range(len(ids.get(t, []))):
                ops.append(["get", t, row])
                for level in ("top", "nested"):
                    ops.append(["mut", t, row, level])
    if ids.get("workflow"):
        for kind, t in (("ports", "port"), ("steps", "step")):
            if t in cfg["tables"] and ids.get(t):
                ops.append(["bulk", kind])
                ops.append(["mutbulk", kind, "top"])
                ops.append(["mutbulk", kind, "nested"])
    if cfg.get("no_upd"):
        ops = [o for o in ops if o[0] not in ("upd", "mut", "mutbulk", "get", "bulk")]
    return ops


async def _apply(loop, cfg, hist, res):
    loop.mute = True
    ctx = wfkit.make_context()
    sfdb = ctx.database
    async with sfdb.connection:
        pass
    raw = wfkit.raw_db()
    ids = {}
    problems = []
    for op in hist:
        await apply_op(sfdb, ids, op)
    # caches as they are now (contents matter: an aliased/poisoned entry is part of the state)
    caches = []
    for cname in ("deployment_cache", "port_cache", "step_cache", "target_cache", "filter_cache", "token_cache",
                  "workflow_cache"):
        c = getattr(sfdb, cname)
        caches.append((cname, tuple(sorted((repr(k), repr(v)) for k, v in c.items()))))
    res["caches"] = tuple(caches)
    # the observation: every getter now, against the independent reader
    await compare_all(sfdb, raw, ids, problems, f"after {hist[-1] if hist else 'start'}")
    res["problems"] = problems
    res["enabled"] = enabled_ops(cfg, ids, hist)
    dump = []
    for t in ("workflow", "port", "step", "token", "recoverable", "deployment", "target", "filter", "execution",
              "provenance", "dependency"):
        dump.append((t, tuple(tuple(sorted((k, str(v)) for k, v in r.items())) for r in raw_rows(raw, t))))
    res["canon"] = (tuple(dump), res["caches"])
    await ctx.close()


def step(cfg, hist) -> StepResult:
    res = {}
    ex = execute(lambda loop: _apply(loop, cfg, hist, res), [])
    if ex.error or ex.hang:
        return StepResult(("err", json.dumps(hist)), [("C09|harness-error", f"{ex.error or ex.pending} after {hist}")], [], len(hist))
    fails = []
    last = hist[-1] if hist else None
    for name, msg in res["problems"][:3]:
        muts = [o for o in hist if o[0] in ("mut", "mutbulk")]
        cause = ("caller-mutated-" + ("bulk-" if muts and muts[-1][0] == "mutbulk" else "") + muts[-1][-1] + "-row") if muts else ("after-" + last[0] if last else "initial")
        fails.append((f"C09|{name}|{cause}", msg + f"; history {hist}"))
    return StepResult(res["canon"], fails, res["enabled"], 1, obs=hash(res["canon"]))


def configs_for(tier):
    q = tier == "quick"
    return [
        {"tables": ["workflow", "port", "token", "token_r"], "rows": 1 if q else 2, "depth": 5 if q else 6},
        {"tables": ["workflow", "step", "execution"], "rows": 1 if q else 2, "depth": 5 if q else 6},
        {"tables": ["deployment", "target", "filter"], "rows": 1 if q else 2, "depth": 5 if q else 6},
        {"tables": ["workflow", "port", "step", "token", "provenance", "dependency"], "rows": 2, "depth": 7 if q else 8,
         "no_upd": True},
    ]


def main(argv=None):
    args = runner.tier_args(argv)
    worker_init()
    if args.replay:
        payload = json.load(open(args.replay))["replay"]
        r = step(payload["config"], payload["history"])
        for k, m in r.failures:
            print(f"VIOLATION property={PROP} replay={args.replay}\n  {k}: {m}")
        return 1 if r.failures else 0
    rep = runner.Report(PROP, args.tier, "model_checking", runner.seed())
    cfgs = configs_for(args.tier)
    st = opsearch.bfs(f"checks.{PROP}", cfgs, 5, workers=args.workers,
                      time_cap=args.time_cap or (240 if args.tier == "quick" else 1500))
    opsearch.bfs_report(rep, sys.modules[__name__], cfgs, st, 5,
                        samples=[{"config": cfgs[0], "history": [["add", "workflow"], ["add", "port"], ["upd", "port", 0, 1],
                                                                 ["mut", "port", 0, "nested"]]}])
    rep.coverage["rule"] = (
        "BFS over all sequences of add_* / update_* (every updatable column class) / mutate-a-returned-row (top level "
        "and nested) on 4 table families with <= 2 rows per table; after EVERY operation every get_* of the class is "
        "compared with raw SQL on the same SQLite connection decoded by reference code; reads are operations too "
        "(single getters, bulk getters get_workflow_ports/steps, and mutation of the rows they return), so cold and "
        "warm caches are both reached; canonical state = full table contents + contents of every cache")
    rep.assumptions = ["single connection (the workflow database is opened once per context)",
                       "<= 2 rows per table; history depth as stated"]
    return rep.finish()


if __name__ == "__main__":
    sys.exit(main())
