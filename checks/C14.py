"""C14 -- hardware arithmetic is consistent (bounded-exhaustive laws over a dyadic value domain)."""
from __future__ import annotations

import copy
import itertools
import sys

from mc import enumr, runner
from mc.enumr import ChunkResult

from streamflow.core.exception import WorkflowExecutionException
from streamflow.core.scheduling import Hardware, Storage

PROP = "C14"
MOUNTS = ["/", "/tmp", "/data"]


def mk(spec):
    cores, mem, st = spec
    storage = {k: Storage(mount_point=m, size=s, paths=set(p) if p else None, bind=b) for (k, m, s, p, b) in st}
    return Hardware(cores=cores, memory=mem, storage=storage or None)


def per_mount(h: Hardware):
    out = {}
    for d in h.storage.values():
        out[d.mount_point] = out.get(d.mount_point, 0.0) + d.size
    return out


def snapshot(h: Hardware):
    return (h.cores, h.memory, tuple(sorted((k, d.mount_point, d.size, tuple(sorted(d.paths)), d.bind)
                                            for k, d in h.storage.items())))


def domain(tier):
    vals = [0.0, 0.5, 2.5] if tier == "quick" else [0.0, 0.5, 1.0, 2.5]
    sizes = [0.0, 0.5, 3.0] if tier == "quick" else [0.0, 0.5, 1.0, 3.0]
    storages = [()]
    # 1..3 storages; keys equal to the mount point or aliasing keys; optional paths/bind
    singles = []
    for m in MOUNTS:
        for s in sizes:
            singles.append((m, m, s, (), None))
        singles.append((f"k{m}", m, sizes[1], (m + "/p",), None))
    singles.append(("kb", "/tmp", sizes[-1], (), "/host"))
    for s in singles:
        storages.append((s,))
    pairs = []
    for a, b in itertools.combinations(singles, 2):
        if a[0] != b[0]:
            pairs.append((a, b))
    step = 3 if tier == "quick" else 1
    storages.extend(pairs[::step])
    trip = []
    for a, b, c in itertools.combinations(singles[::2], 3):
        if len({a[0], b[0], c[0]}) == 3:
            trip.append((a, b, c))
    storages.extend(trip[:: (9 if tier == "quick" else 3)])
    cm = [(c, m) for c in vals for m in vals]
    if tier == "quick":
        cm = cm[::2]
    return [(c, m, st) for (c, m) in cm for st in storages]


def check_pair(sa, sb, fails):
    a, b = mk(sa), mk(sb)
    a0, b0 = snapshot(a), snapshot(b)

    def F(law, msg):
        fails.append((f"C14|{law}", f"{msg}; a={a!r} b={b!r}", {"a": sa, "b": sb}))

    # (a+b)-b == a per mount point, cores, memory
    try:
        s = a + b
        r = s - b
        pa, pr = per_mount(a), per_mount(r)
        if r.cores != a.cores or r.memory != a.memory or any(pr.get(m, 0.0) != pa.get(m, 0.0) for m in set(pa) | set(pr)):
            F("add-sub", f"(a+b)-b = {r!r} differs from a")
        if not s.is_normalized():
            F("add-normalized", f"a+b not normalized: {s!r}")
        # commutativity
        s2 = b + a
        if (s.cores, s.memory, per_mount(s)) != (s2.cores, s2.memory, per_mount(s2)):
            F("add-commutative", f"a+b={s!r} b+a={s2!r}")
        ps = per_mount(s)
        pb = per_mount(b)
        if any(ps.get(m, 0) != pa.get(m, 0) + pb.get(m, 0) for m in set(pa) | set(pb) | set(ps)):
            F("add-totals", f"a+b per-mount totals {ps} != {pa} + {pb}")
    except WorkflowExecutionException as e:
        # subtraction may legitimately refuse negative sizes only when b > a+b, impossible here
        F("add-sub-raises", f"raised {e}")
    # normalisation
    n = a.normalized()
    if not n.is_normalized():
        F("normalized", f"normalized() not normalized: {n!r}")
    if per_mount(n) != per_mount(a) or n.cores != a.cores or n.memory != a.memory:
        F("normalized-totals", f"normalized() changed totals: {n!r}")
    if snapshot(n.normalized()) != snapshot(n):
        F("normalized-idempotent", f"normalized() not idempotent: {n!r} -> {n.normalized()!r}")
    if any(k != d.mount_point for k, d in n.storage.items()):
        F("normalized-keys", f"normalized() keys are not mount points: {n!r}")
    # satisfies
    pa, pb = per_mount(a), per_mount(b)
    want = a.cores >= b.cores and a.memory >= b.memory and all(pa.get(m, 0.0) >= v for m, v in pb.items())
    documented = set(pb) <= set(pa)
    try:
        got = a.satisfies(b)
        if documented and got != want:
            F("satisfies", f"a.satisfies(b) = {got}, reference {want}")
        if not documented and got is not False:
            F("satisfies-domain", f"b has mount points outside a but satisfies returned {got}")
    except WorkflowExecutionException:
        if documented:
            F("satisfies-raises", "satisfies raised although every mount point of b is in a")
    # | keeps keys and takes per-key max
    same_mount = all(a.storage[k].mount_point == b.storage[k].mount_point for k in set(a.storage) & set(b.storage))
    if same_mount:
        o = a | b
        for k in set(a.storage) | set(b.storage):
            w = max(a.storage[k].size if k in a.storage else 0.0, b.storage[k].size if k in b.storage else 0.0)
            if k not in o.storage or o.storage[k].size != w:
                F("or-max", f"(a|b).storage[{k!r}] = {o.storage.get(k)!r}, expected size {w}")
        if set(o.storage) != set(a.storage) | set(b.storage):
            F("or-keys", f"a|b keys {sorted(o.storage)}")
    # operands untouched
    if snapshot(a) != a0 or snapshot(b) != b0:
        F("mutates-operands", f"operands changed: a was {a0} now {snapshot(a)}; b was {b0} now {snapshot(b)}")


def check_chunk(chunk):
    dom = chunk["dom"]
    fails, n = [], 0
    seen = set()
    for sa in chunk["xs"]:
        for sb in dom:
            n += 1
            check_pair(sa, sb, fails)
            if len(fails) > 50:
                break
        seen.add(repr(sa))
    if chunk.get("triples"):
        for sa, sb, sc in chunk["triples"]:
            n += 1
            a, b, c = mk(sa), mk(sb), mk(sc)
            l, r = (a + b) + c, a + (b + c)
            if (l.cores, l.memory, per_mount(l)) != (r.cores, r.memory, per_mount(r)):
                fails.append(("C14|add-associative", f"(a+b)+c={l!r} a+(b+c)={r!r}", {"a": sa, "b": sb, "c": sc}))
    dedup = {}
    for k, m, p in fails:
        dedup.setdefault(k, (k, m, p))
    return ChunkResult(n, seen, list(dedup.values()), samples=[{"a": chunk["xs"][0], "b": dom[len(dom) // 2]}])


def main(argv=None):
    args = runner.tier_args(argv)
    if args.replay:
        import json

        p = json.load(open(args.replay))["replay"]
        fails = []

        def tup(s):
            return (s[0], s[1], tuple(tuple(x[:3]) + (tuple(x[3]), x[4]) for x in s[2]))
        check_pair(tup(p["a"]), tup(p["b"]), fails)
        for k, m, _ in fails:
            print(f"VIOLATION property={PROP} replay={args.replay}\n  {k}: {m}")
        return 1 if fails else 0
    rep = runner.Report(PROP, args.tier, "exploration", runner.seed())
    dom = domain(args.tier)
    size = max(1, len(dom) // 64)
    chunks = [{"xs": dom[i:i + size], "dom": dom} for i in range(0, len(dom), size)]
    red = dom[:: max(1, len(dom) // 22)]
    chunks.append({"xs": red[:1], "dom": red[:1], "triples": list(itertools.product(red, repeat=3))})
    enumr.run_enum(rep, f"checks.{PROP}", chunks, workers=args.workers)
    rep.coverage["domain_size"] = len(dom)
    rep.coverage["rule"] = (
        "all ordered pairs of Hardware values from the domain (cores, memory in dyadic {0,.5,(1),2.5}; 0..3 storages "
        "over mount points /, /tmp, /data with keys equal to or aliasing the mount point, sizes dyadic, with/without "
        "paths and bind) checked against the laws add-sub, commutativity, per-mount totals, normalisation "
        "idempotence/keys/totals, satisfies <=> component-wise >=, | keeps keys and takes max, operands unchanged; "
        "associativity on all triples of a reduced domain; distinct = distinct left operands")
    rep.assumptions = ["dyadic values make float arithmetic exact",
                       "satisfies is only specified when the requirement's mount points are a subset of the capacity's"]
    return rep.finish()


if __name__ == "__main__":
    sys.exit(main())
