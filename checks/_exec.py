"""Shared executor harness: program catalogue, one controlled run, observations for C01b/C04/C05/C07/C15."""
from __future__ import annotations

import asyncio
import os
import shutil

from mc import execkit, wfkit
from mc.execkit import WB
from mc.explore import Outcome
from mc.loop import execute

from streamflow.core.exception import WorkflowExecutionException
from streamflow.core.workflow import Status
from streamflow.workflow.executor import StreamFlowExecutor
from streamflow.workflow.token import TerminationToken

inc = wfkit.PYFUNCS["inc"]


# ---------------------------------------------------------------------------------------------
# programs: spec (json-able dict) -> builder; each has a reference output function
# ---------------------------------------------------------------------------------------------

def _merge(wb, ports, func):
    s = wb.wf.create_step(wfkit.PyMerge, name=wb._name("mg"), func=func)
    for k, p in ports.items():
        s.add_input_port(k, p)
    o = wb.port()
    s.add_output_port("x", o)
    return o


def build(wb: WB, spec: dict):
    """Builds the program and returns the reference value of run()'s result (dict name -> value)."""
    k = spec["prog"]
    if k == "pipeline":
        p = wb.inp("a", spec.get("value", 5))
        for _ in range(spec["k"]):
            p = wb.tr(p, "inc")
        wb.out("o", p)
        v = spec.get("value", 5)
        for _ in range(spec["k"]):
            v = inc(v)
        return {"o": v}
    if k == "scatter":
        vals = list(range(spec["n"]))
        p = wb.inp("a", vals)
        e, sz = wb.scatter(p)
        e = wb.tr(e, "inc")
        wb.out("o", wb.gather(e, sz))
        return {"o": inc(vals)}
    if k == "nested":
        vals = [[10 * i + j for j in range(spec["b"])] for i in range(spec["a"])]
        p = wb.inp("a", vals)
        e1, s1 = wb.scatter(p)
        e2, s2 = wb.scatter(e1)
        e2 = wb.tr(e2, "inc")
        g2 = wb.gather(e2, s2)
        wb.out("o", wb.gather(g2, s1))
        return {"o": inc(vals)}
    if k == "dot1":  # one scattered input, one broadcast scalar
        vals = list(range(spec["n"]))
        a = wb.inp("a", vals)
        b = wb.inp("b", 100)
        e, sz = wb.scatter(a)
        outs = wb.combinator({"a": e, "b": b}, "dot")
        m = _merge(wb, outs, "sum")
        wb.out("o", wb.gather(m, sz))
        return {"o": [v + 100 for v in vals]}
    if k == "dot2":
        vals = list(range(spec["n"]))
        a = wb.inp("a", vals)
        b = wb.inp("b", [10 * v for v in vals])
        ea, sa = wb.scatter(a)
        eb, sb = wb.scatter(b)
        outs = wb.combinator({"a": ea, "b": eb}, "dot")
        m = _merge(wb, outs, "sum")
        wb.out("o", wb.gather(m, sa))
        return {"o": [11 * v for v in vals]}
    if k == "dotjob":  # dot product of a directly scattered list with one that comes through scattered JOBS (later, in completion order)
        vals = list(range(spec["n"]))
        a = wb.inp("a", vals)
        b = wb.inp("b", [10 * v for v in vals])
        ea, sa = wb.scatter(a)
        eb, sb = wb.scatter(b)
        jb = wb.job({"x": eb}, op="inc", name="/dj")
        outs = wb.combinator({"a": ea, "b": jb}, "dot")
        m = _merge(wb, outs, "sum")
        wb.out("o", wb.gather(m, sa))
        return {"o": [11 * v + 1 for v in vals]}
    if k == "cart":
        from streamflow.cwl.transformer import CartesianProductSizeTransformer

        va, vb = list(range(spec["n"])), [10 * (j + 1) for j in range(spec["m"])]
        a = wb.inp("a", va)
        b = wb.inp("b", vb)
        ea, sa = wb.scatter(a)
        eb, sb = wb.scatter(b)
        outs = wb.combinator({"a": ea, "b": eb}, "cart", depth=1)
        m = _merge(wb, outs, "sum")
        st = wb.wf.create_step(CartesianProductSizeTransformer, name=wb._name("size"))
        st.add_input_port("a", sa)
        st.add_input_port("b", sb)
        sp = wb.port()
        st.add_output_port("a-b", sp)
        wb.out("o", wb.gather(m, sp, depth=2))
        return {"o": [x + y for x in va for y in vb]}
    if k == "cond":
        vals = list(range(spec["n"]))
        p = wb.inp("a", vals)
        e, sz = wb.scatter(p)
        outs, step = wb.cond({"x": e}, spec["pred"])
        o = wb.tr(outs["x"], "inc")
        step.add_skip_port("x", o)
        wb.out("o", wb.gather(o, sz))
        pred = execkit.PREDS[spec["pred"]]
        return {"o": [v + 1 if pred(v) else None for v in vals]}
    if k == "jobs":
        v = spec.get("value", 5)
        p = wb.inp("a", v)
        for i in range(spec["k"]):
            p = wb.job({"x": p}, op="inc", name=f"/j{i}")
        wb.out("o", p)
        for _ in range(spec["k"]):
            v = inc(v)
        return {"o": v}
    if k == "scatterjobs":
        vals = list(range(spec["n"]))
        p = wb.inp("a", vals)
        e, sz = wb.scatter(p)
        o = wb.job({"x": e}, op="inc", name="/sj")
        wb.out("o", wb.gather(o, sz))
        return {"o": inc(vals)}
    if k == "filejobs":  # pipeline of k jobs over a file / list of files / object of files
        kind = spec.get("kind", "file")
        f = lambda i: {"class": "File", "name": f"in{i}.txt", "content": f"data{i}"}  # noqa: E731
        v = f(0) if kind == "file" else ([f(0), f(1)] if kind == "list" else {"a": f(0), "b": f(1)})
        p = wb.inp("a", v)
        for i in range(spec["k"]):
            p = wb.job({"x": p}, op="copy", name=f"/f{i}")
        wb.out("o", p)
        suf = "+" * spec["k"]
        return {"o": "data0" + suf if kind == "file" else (["data0" + suf, "data1" + suf] if kind == "list"
                                                             else {"a": "data0" + suf, "b": "data1" + suf})}
    if k == "filescatter":  # A(file list) -> scatter -> B_i -> gather -> C
        n = spec["n"]
        v = [{"class": "File", "name": f"in{i}.txt", "content": f"data{i}"} for i in range(n)]
        p = wb.inp("a", v)
        a = wb.job({"x": p}, op="copy", name="/A")
        e, sz = wb.scatter(a)
        b = wb.job({"x": e}, op="copy", name="/B")
        g = wb.gather(b, sz)
        wb.out("o", wb.job({"x": g}, op="copy", name="/C"))
        return {"o": [f"data{i}+++" for i in range(n)]}
    if k == "filescatter2c":  # A(file list) -> scatter -> B_i -> gather -> {C1, C2}: two consumers of the gathered list
        n = spec["n"]
        v = [{"class": "File", "name": f"in{i}.txt", "content": f"data{i}"} for i in range(n)]
        p = wb.inp("a", v)
        a = wb.job({"x": p}, op="copy", name="/A")
        e, sz = wb.scatter(a)
        b = wb.job({"x": e}, op="copy", name="/B")
        g = wb.gather(b, sz)
        wb.out("o1", wb.job({"x": g}, op="copy", name="/C1"))
        wb.out("o2", wb.job({"x": g}, op="copy", name="/C2"))
        exp = [f"data{i}+++" for i in range(n)]
        if spec.get("e"):  # a third consumer that reads A's output directly (its recovery needs A but none of the B_i)
            wb.out("o3", wb.job({"x": a}, op="copy", name="/E"))
            return {"o1": exp, "o2": exp, "o3": [f"data{i}++" for i in range(n)]}
        return {"o1": exp, "o2": exp}
    if k == "filediamond":  # A -> {B, C} -> D over files
        p = wb.inp("a", {"class": "File", "name": "in0.txt", "content": "data0"})
        a = wb.job({"x": p}, op="copy", name="/A")
        b = wb.job({"x": a}, op="copy", name="/B")
        c = wb.job({"x": a}, op="copy", name="/C")
        d = wb.job({"b": b, "c": c}, op="pair", name="/D")
        wb.out("o", d)
        return {"o": {"b": "data0+++", "c": "data0+++"}}
    if k == "filefan":  # A -> {B0..B(k-1)} -> D over files: k consumers of one producer's output
        p = wb.inp("a", {"class": "File", "name": "in0.txt", "content": "data0"})
        a = wb.job({"x": p}, op="copy", name="/A")
        bs = {f"b{i}": wb.job({"x": a}, op="copy", name=f"/B{i}") for i in range(spec["k"])}
        wb.out("o", wb.job(bs, op="pair", name="/D"))
        return {"o": {f"b{i}": "data0+++" for i in range(spec["k"])}}
    if k == "fileloop":  # loop whose body is a job over a counter and a file (file copied every iteration)
        p = wb.inp("a", spec.get("start", 0))
        ext = wb.loop({"x": p}, spec["pred"], lambda w, ports: {"x": w.job({"x": ports["x"]}, op="inc", name="/lj")},
                      ["x"], method=spec.get("method", "last"))
        wb.out("o", ext["x"])
        return {"o": _loop_ref(spec.get("start", 0), spec["pred"], spec.get("method", "last"))}
    if k == "twobranch":  # two scattered job branches joined by a two-input transformer (no combinator)
        vals = list(range(spec["n"]))
        p = wb.inp("a", vals)
        e, sz = wb.scatter(p)
        ja = wb.job({"x": e}, op="inc", name="/ba")
        jb = wb.job({"x": e}, op="copy", name="/bb")
        m = _merge(wb, {"a": ja, "b": jb}, "sum")
        wb.out("o", wb.gather(m, sz))
        return {"o": [2 * v + 1 for v in vals]}
    if k == "fixeddirs":  # scattered jobs whose binding fixes the three directories explicitly
        vals = list(range(spec["n"]))
        p = wb.inp("a", vals)
        e, sz = wb.scatter(p)
        base = wb.workdir
        # spec["fix"]: which of the three directories the binding fixes (default all); the others are generated per job
        fix = spec.get("fix", "in+out+tmp").split("+")
        dirs = tuple((base + f"/fixed-{k}") if k in fix else None for k in ("in", "out", "tmp"))
        o = wb.job({"x": e}, op="inc", name="/fx", dirs=dirs)
        wb.out("o", wb.gather(o, sz))
        return {"o": inc(vals)}
    if k == "multiloc":  # scattered jobs, each allocated to `locs` locations of one deployment with `nlocs` locations
        vals = list(range(spec["n"]))
        p = wb.inp("a", vals)
        e, sz = wb.scatter(p)
        o = wb.job({"x": e}, op="inc", name="/ml", locations=spec["locs"])
        wb.out("o", wb.gather(o, sz))
        return {"o": inc(vals)}
    if k == "twojobs":  # two independent jobs merged: diamond A -> {B, C} -> D
        p = wb.inp("a", 1)
        a = wb.job({"x": p}, op="inc", name="/A")
        b = wb.job({"x": a}, op="inc", name="/B")
        c = wb.job({"x": a}, op="copy", name="/C")
        d = wb.job({"b": b, "c": c}, op="sum", name="/D")
        wb.out("o", d)
        return {"o": 3 + 2}
    if k == "loop":
        p = wb.inp("a", spec.get("start", 0))
        ext = wb.loop({"x": p}, spec["pred"], lambda w, ports: {"x": w.tr(ports["x"], "inc")}, ["x"],
                      method=spec.get("method", "last"))
        wb.out("o", ext["x"])
        return {"o": _loop_ref(spec.get("start", 0), spec["pred"], spec.get("method", "last"))}
    if k == "scatterloop":
        starts = spec["starts"]
        p = wb.inp("a", starts)
        e, sz = wb.scatter(p)
        ext = wb.loop({"x": e}, spec["pred"], lambda w, ports: {"x": w.tr(ports["x"], "inc")}, ["x"],
                      method=spec.get("method", "last"))
        wb.out("o", wb.gather(ext["x"], sz))
        return {"o": [_loop_ref(s, spec["pred"], spec.get("method", "last")) for s in starts]}
    if k == "loopjob":
        p = wb.inp("a", spec.get("start", 0))
        ext = wb.loop({"x": p}, spec["pred"], lambda w, ports: {"x": w.job({"x": ports["x"]}, op="inc", name="/lj")},
                      ["x"], method=spec.get("method", "last"))
        wb.out("o", ext["x"])
        return {"o": _loop_ref(spec.get("start", 0), spec["pred"], spec.get("method", "last"))}
    if k == "seq_scatter_pipeline":
        vals = list(range(spec["n"]))
        p = wb.inp("a", vals)
        e, sz = wb.scatter(p)
        g = wb.gather(wb.tr(e, "inc"), sz)
        wb.out("o", wb.tr(g, "inc"))
        return {"o": inc(inc(vals))}
    if k == "seq_job_scatterjobs":
        vals = list(range(spec["n"]))
        p = wb.inp("a", vals)
        a = wb.job({"x": p}, op="inc", name="/A")
        e, sz = wb.scatter(a)
        o = wb.job({"x": e}, op="inc", name="/B")
        g = wb.gather(o, sz)
        wb.out("o", wb.job({"x": g}, op="inc", name="/C"))
        return {"o": inc(inc(inc(vals)))}
    raise ValueError(k)


def _loop_ref(start, pred, method):
    f = execkit.PREDS[pred]
    v, acc = start, []
    while f(v):
        v = v + 1
        acc.append(v)
    if method == "all":
        return acc
    return acc[-1] if acc else None


def program_jobs(spec):
    """Names of the jobs a program runs (for fault plans)."""
    k = spec["prog"]
    if k == "jobs":
        return [f"/j{i}/0" for i in range(spec["k"])]
    if k == "scatterjobs":
        return [f"/sj/0.{i}" for i in range(spec["n"])]
    if k == "twojobs":
        return ["/A/0", "/B/0", "/C/0", "/D/0"]
    if k == "fixeddirs":
        return [f"/fx/0.{i}" for i in range(spec["n"])]
    if k == "multiloc":
        return [f"/ml/0.{i}" for i in range(spec["n"])]
    if k == "dotjob":
        return [f"/dj/0.{i}" for i in range(spec["n"])]
    if k == "filejobs":
        return [f"/f{i}/0" for i in range(spec["k"])]
    if k == "filescatter":
        return ["/A/0"] + [f"/B/0.{i}" for i in range(spec["n"])] + ["/C/0"]
    if k == "filediamond":
        return ["/A/0", "/B/0", "/C/0", "/D/0"]
    if k == "filefan":
        return ["/A/0"] + [f"/B{i}/0" for i in range(spec["k"])] + ["/D/0"]
    if k == "filescatter2c":
        return ["/A/0"] + [f"/B/0.{i}" for i in range(spec["n"])] + ["/C1/0", "/C2/0"] + (["/E/0"] if spec.get("e") else [])
    if k == "fileloop":
        n = len(_loop_ref(spec.get("start", 0), spec["pred"], "all"))
        return [f"/lj/0.{i}" for i in range(n)]
    if k == "twobranch":
        return [f"/ba/0.{i}" for i in range(spec["n"])] + [f"/bb/0.{i}" for i in range(spec["n"])]
    if k == "seq_job_scatterjobs":
        return ["/A/0"] + [f"/B/0.{i}" for i in range(spec["n"])] + ["/C/0"]
    if k == "loopjob":
        n = len(_loop_ref(spec.get("start", 0), spec["pred"], "all"))
        return [f"/lj/0.{i}" for i in range(n)]
    return []


# ---------------------------------------------------------------------------------------------
# one controlled run
# ---------------------------------------------------------------------------------------------

_run_counter = [0]


async def _main(loop, params, res):
    loop.mute = True
    _run_counter[0] += 1
    workdir = execkit.new_workdir("run")
    res["workdir"] = workdir
    fm = params.get("fm")
    ctx = wfkit.make_context(workdir, failure_manager=fm)
    run = execkit.reset_run(params.get("plan"))
    wb = WB(ctx, workdir, nlocs=params["spec"].get("nlocs", 1), sites=params["spec"].get("sites"))
    res["spec"] = params["spec"]
    res["expected"] = build(wb, params["spec"])
    wf = await wb.finish()
    res["wf"] = wf
    res["ctx"] = ctx
    res["run"] = run
    loop.mute = False
    ex = StreamFlowExecutor(wf)
    try:
        res["ret"] = await ex.run()
        res["raised"] = None
    except WorkflowExecutionException as e:
        res["raised"] = repr(e)
    except Exception as e:  # noqa
        res["raised_other"] = repr(e)
        res["raised"] = repr(e)
    # settle: let everything that can still run, run (default choices), then observe
    loop.mute = True
    await loop.gate("settle", prio=9)
    res["pending_after_run"] = [p for p in loop.describe_pending() if p["task"] != "__main__"]
    obs = params.get("observe")
    if obs:
        for name in obs:
            await OBSERVERS[name](loop, res)
    res["statuses"] = {s.name: (s.status.name, s.terminated) for s in wf.steps.values()}
    res["ports"] = {}
    for s in wf.steps.values():
        for pn, port in s.get_output_ports().items():
            res["ports"][port.name] = wfkit.port_dump(port)
    res["outputs"] = {n: wfkit.port_dump(p) for n, p in wf.get_output_ports().items()}
    res["ret_content"] = _content(res.get("ret"))
    try:
        await ctx.close()
    except Exception as e:  # noqa
        res["close_error"] = repr(e)


def _content(v):
    """replace every path of an existing file by the file's content (outputs are compared by content)"""
    if isinstance(v, list):
        return [_content(x) for x in v]
    if isinstance(v, dict):
        return {k: _content(x) for k, x in v.items()}
    if isinstance(v, str) and v.startswith("/") and os.path.isfile(v):
        with open(v) as f:
            return f.read()
    return v


OBSERVERS = {}


def observer(name):
    def deco(f):
        OBSERVERS[name] = f
        return f

    return deco


def run_once(params, prefix, keep=False):
    res = {}
    ex = execute(lambda loop: _main(loop, params, res), prefix, idle_only=bool(params.get("idle_only")))
    wd = res.get("workdir")
    if wd and not keep:
        shutil.rmtree(wd, ignore_errors=True)
    return ex, res


def clean_res(res):
    for k in ("wf", "ctx", "run"):
        res.pop(k, None)


# ---------------------------------------------------------------------------------------------
# C01 (b)
# ---------------------------------------------------------------------------------------------

def cases_c01(tier):
    ns = [(0, 2), (1, 2), (3, 2), (11, 1)] if tier == "quick" else [(0, 2), (1, 2), (2, 2), (3, 3), (4, 2), (11, 2), (12, 1)]
    return [{"kind": "exec", "spec": {"prog": "scatterjobs", "n": n}, "bound": b} for n, b in ns]


def run_case_c01(params, prefix):
    ex, res = run_once(params, prefix)
    fails = []
    base = f"C01|exec|n={params['spec']['n']}"
    if ex.hang:
        fails.append((base + "|hang", f"executor hangs: {ex.pending}"))
    elif ex.error:
        fails.append((base + "|error", f"{ex.error}"))
    elif res.get("raised"):
        fails.append((base + "|raised", res["raised"]))
    elif res.get("ret") != res["expected"]:
        fails.append((base + "|value", f"run() returned {res.get('ret')} expected {res['expected']}; "
                                       f"job completion order {res['run'].completed_log}"))
    obs = str(res.get("ret"))
    clean_res(res)
    return Outcome(ex.trace, fails, obs=obs, steps=ex.steps, states=ex.states, signature=ex.signature)


# ---------------------------------------------------------------------------------------------
# catalogue and generic driver
# ---------------------------------------------------------------------------------------------

BOUNDS = {}  # spec_key -> deviation bound for the large programs of the catalogue


def catalogue(tier):
    out = []
    for s in _catalogue(tier):
        s = dict(s)
        b = s.pop("bound", None)
        if b is not None:
            BOUNDS[spec_key(s)] = b
        out.append(s)
    return out


# programs whose schedules with 2 deviations do not fit the thorough time cap (measured: > 90 s each on 16 cores); they are
# explored with 1 deviation, so that a thorough run completes every case at its stated bound instead of being cut
HEAVY = {"prog=scatterjobs,n=3", "prog=twojobs", "prog=twobranch,n=2", "prog=scatterloop,starts=[0, 2],pred=lt3",
         "prog=dotjob,n=2", "prog=dotjob,n=3", "prog=cart,n=2,m=3", "prog=jobs,k=3", "prog=scatterjobs,n=4",
         "prog=scatterloop,starts=[0, 2, 3],pred=lt3", "prog=scatterloop,starts=[0, 2, 3],pred=lt3,method=all",
         "prog=scatterloop,starts=[3, 3],pred=lt3", "prog=loopjob,pred=lt3", "prog=loopjob,pred=lt3,method=all",
         "prog=seq_job_scatterjobs,n=2", "prog=twobranch,n=3"}


def case_of_light(spec):
    """as case_of, with the heavy programs limited to one deviation (fault-free explorations C05, C07)"""
    c = case_of(spec)
    if "bound" not in c and spec_key(spec) in HEAVY:
        c["bound"] = 1
    return c


def case_of(spec):
    """catalogue case with the program's own deviation bound, if it has one"""
    b = BOUNDS.get(spec_key(spec))
    return {"spec": spec} if b is None else {"spec": spec, "bound": b}


def _catalogue(tier):
    q = [
        {"prog": "pipeline", "k": 1}, {"prog": "pipeline", "k": 3},
        {"prog": "scatter", "n": 0}, {"prog": "scatter", "n": 1}, {"prog": "scatter", "n": 3},
        {"prog": "nested", "a": 2, "b": 2},
        {"prog": "dot1", "n": 2}, {"prog": "dot2", "n": 2},
        {"prog": "cart", "n": 2, "m": 2},
        {"prog": "cond", "n": 3, "pred": "odd"}, {"prog": "cond", "n": 2, "pred": "false"},
        {"prog": "cond", "n": 2, "pred": "true"},
        {"prog": "jobs", "k": 1}, {"prog": "jobs", "k": 2},
        {"prog": "scatterjobs", "n": 2}, {"prog": "scatterjobs", "n": 3},
        {"prog": "twojobs"}, {"prog": "twobranch", "n": 2},
        {"prog": "loop", "pred": "false"}, {"prog": "loop", "pred": "lt1"}, {"prog": "loop", "pred": "lt3"},
        {"prog": "loop", "pred": "lt3", "method": "all"}, {"prog": "loop", "pred": "false", "method": "all"},
        {"prog": "scatterloop", "starts": [0, 2], "pred": "lt3"},
        {"prog": "loopjob", "pred": "lt1"},
        {"prog": "seq_scatter_pipeline", "n": 2},
        {"prog": "dotjob", "n": 2}, {"prog": "dotjob", "n": 11, "bound": 0},
    ]
    if tier == "quick":
        return q
    t = q + [
        {"prog": "pipeline", "k": 2}, {"prog": "scatter", "n": 2}, {"prog": "scatter", "n": 4},
        {"prog": "scatter", "n": 11}, {"prog": "dot2", "n": 12, "bound": 1}, {"prog": "dot1", "n": 11, "bound": 1},
        {"prog": "dotjob", "n": 3}, {"prog": "dotjob", "n": 12, "bound": 1},
        {"prog": "nested", "a": 2, "b": 3}, {"prog": "nested", "a": 3, "b": 1}, {"prog": "nested", "a": 2, "b": 0},
        {"prog": "dot1", "n": 0}, {"prog": "dot1", "n": 3}, {"prog": "dot2", "n": 3}, {"prog": "dot2", "n": 0},
        {"prog": "cart", "n": 2, "m": 3}, {"prog": "cart", "n": 3, "m": 1}, {"prog": "cart", "n": 0, "m": 2},
        {"prog": "cond", "n": 4, "pred": "odd"}, {"prog": "cond", "n": 0, "pred": "odd"},
        {"prog": "jobs", "k": 3}, {"prog": "scatterjobs", "n": 0}, {"prog": "scatterjobs", "n": 1},
        {"prog": "scatterjobs", "n": 4},
        {"prog": "loop", "pred": "lt11"}, {"prog": "loop", "pred": "lt11", "method": "all"},
        {"prog": "loop", "pred": "lt1", "method": "all"},
        {"prog": "scatterloop", "starts": [0, 2, 3], "pred": "lt3"},
        {"prog": "scatterloop", "starts": [0, 2, 3], "pred": "lt3", "method": "all"},
        {"prog": "scatterloop", "starts": [3, 3], "pred": "lt3"},
        {"prog": "loopjob", "pred": "lt3"}, {"prog": "loopjob", "pred": "false"},
        {"prog": "loopjob", "pred": "lt3", "method": "all"},
        {"prog": "seq_scatter_pipeline", "n": 3}, {"prog": "seq_job_scatterjobs", "n": 2},
        {"prog": "twobranch", "n": 3},
    ]
    return t


def spec_key(spec):
    return ",".join(f"{k}={v}" for k, v in spec.items())


def generic_main(prop, module, level, cases, bound, case_bounds, rule, assumptions, args, samples=None, extra=None,
                 time_cap=None):
    import sys

    from mc import runner
    from mc.explore import Explorer, run_iterated

    flt = os.environ.get("VERIF_CASE_FILTER")  # debugging aid: substring of the case's JSON
    if flt:
        import json as _json

        keep = [i for i, c in enumerate(cases) if flt in _json.dumps(c, sort_keys=True)]
        case_bounds = {j: case_bounds[i] for j, i in enumerate(keep) if i in case_bounds}
        cases = [cases[i] for i in keep]
        print(f"[{prop}] VERIF_CASE_FILTER keeps {len(cases)} cases (debug run, evidence not representative)")
    rep = runner.Report(prop, args.tier, level, runner.seed())
    top = max([bound] + list(case_bounds.values()))
    cap = args.time_cap or time_cap
    with Explorer(module.__name__, cases, workers=args.workers, seed=runner.seed()) as exp:
        stats, completed, levels = run_iterated(exp, top, cap, case_bounds, bound)
    runner.e1_report(rep, module, cases, stats, completed, levels, bound,
                     samples=samples or [cases[0], cases[len(cases) // 2], cases[-1]], extra=extra)
    rep.coverage["rule"] = rule
    rep.assumptions = assumptions
    return rep.finish()


def replay_main(prop, module, path):
    import json

    from mc import runner

    payload = json.load(open(path))["replay"]
    out = module.run_case(payload["case"], runner.unrle(payload["choices"]))
    for k, m in out.failures:
        print(f"VIOLATION property={prop} replay={path}\n  {k}: {m}")
    return 1 if out.failures else 0


ENV_ASSUMPTIONS = [
    "environment model of DESIGN.md 2.1: ready callbacks FIFO; SQLite replies FIFO per connection but completing at "
    "any step; job/transfer durations are free gates; asyncio.wait set order owned; uuid4 deterministic",
    "leaf behaviour (what a command computes, when it fails) is harness code (mc/execkit.py); every step, port, "
    "combinator, scheduler, deployment/data/failure manager and the executor are the real classes",
]
