"""C29 -- CWL workflows produce the same outputs as the reference runner (bounded-exhaustive differential against cwltool)."""
from __future__ import annotations

import itertools
import json
import os
import shutil
import sys

from checks import _cwl
from mc import enumr, runner, wfkit
from mc.enumr import ChunkResult

PROP = "C29"


def worker_init():
    wfkit.quiet_logging()


def check_chunk(chunk):
    scratch = os.path.join(runner.scratch_dir(), f"c29-{os.getpid()}")
    os.makedirs(scratch, exist_ok=True)
    fails, n, distinct = {}, 0, set()
    counts = {"both_succeed": 0, "both_fail": 0, "one_fails": 0}
    try:
        for spec in chunk["items"]:
            n += 1
            res = _cwl.differential(spec, scratch)
            classes = "+".join(_cwl.FEATURES[f][2] for f in spec["features"])
            distinct.add(("+".join(spec["features"]), res["sf_ok"], res["ref_ok"]))
            counts["both_succeed" if res["sf_ok"] and res["ref_ok"] else "both_fail" if not res["sf_ok"] and not res["ref_ok"] else "one_fails"] += 1
            if not res["agree"]:
                what = ("outputs-differ" if res["sf_ok"] and res["ref_ok"] else
                        "streamflow-fails" if res["ref_ok"] else "streamflow-succeeds-reference-fails")
                key = f"C29|{what}|{'+'.join(spec['features'])}"
                if what == "outputs-differ" and "nested_empty" in spec["features"]:
                    i = spec["features"].index("nested_empty")
                    others_equal = all(res["sf"].get(k) == res["ref"].get(k) for k in set(res["sf"]) | set(res["ref"]) if k != f"o{i}")
                    if others_equal and res["ref"].get(f"o{i}") == []:
                        key = "C29|outputs-differ|cause=nested_crossproduct-over-an-empty-first-array"
                fails.setdefault(key, (key, f"features {spec['features']}: StreamFlow -> {json.dumps(res['sf'])[:500]}; cwltool -> "
                                            f"{json.dumps(res['ref'])[:500]}", {"items": [spec]}))
    finally:
        shutil.rmtree(scratch, ignore_errors=True)
    return ChunkResult(n, distinct, list(fails.values()), samples=[chunk["items"][0]], extra=counts)


REGRESSION = [{"features": ["flat", "merge_flat"]}, {"features": ["nested", "merge_flat"]},
              # 12-element scatters feeding every consumer of arrays (two-digit scatter indices)
              {"features": ["scatter12", "merge_flat"]}, {"features": ["scatter12", "merge_nested_arr"]},
              {"features": ["scatter12", "when_scatter"]}, {"features": ["scatter12", "scatter_clt"]},
              {"features": ["flat12", "merge_flat"]}, {"features": ["dot12", "merge_flat"]}]


def programs(tier):
    names = list(_cwl.FEATURES)
    progs = [{"features": [f]} for f in names]
    if tier == "quick":
        # one representative per feature class, all ordered pairs of classes
        reps = {}
        for f in names:
            reps.setdefault(_cwl.FEATURES[f][2], f)
        reps["scatter"] = "scatter3"
        reps["loop"] = "loop3"
        reps["when"] = "when_false"
        r = list(reps.values())
        progs += [{"features": [a, b]} for a, b in itertools.product(r, repeat=2) if a != b][::3]
        # pairs behind repaired defects stay in the quick tier
        progs += [p for p in REGRESSION if p not in progs]
    else:
        # two representatives per feature class: all ordered pairs of them; all triples of 6 representatives
        two = {}
        for f in names:
            two.setdefault(_cwl.FEATURES[f][2], [])
            if len(two[_cwl.FEATURES[f][2]]) < 2:
                two[_cwl.FEATURES[f][2]].append(f)
        two["scatter"] = ["scatter3", "scatter0"]
        two["scatter2"] = ["nested", "flat"]
        two["loop"] = ["loop3", "loop0_all"]
        two["when"] = ["when_false", "when_scatter"]
        two["pick"] = ["pick_first", "pick_all"]
        r2 = [f for v in two.values() for f in v]
        progs += [{"features": [a, b]} for a, b in itertools.product(r2, repeat=2) if a != b]
        reps = ["expr", "scatter3", "when_false", "loop3", "subwf", "vf_other"]
        progs += [{"features": list(t)} for t in itertools.permutations(reps, 3)]
    return progs


def main(argv=None):
    args = runner.tier_args(argv)
    worker_init()
    if args.replay:
        p = json.load(open(args.replay))["replay"]
        r = check_chunk(p)
        for k, m, _ in r.failures:
            print(f"VIOLATION property={PROP} replay={args.replay}\n  {k}: {m}")
        return 1 if r.failures else 0
    rep = runner.Report(PROP, args.tier, "exploration", runner.seed())
    progs = programs(args.tier)
    nchunks = min(len(progs), 64 if args.tier == "quick" else 256)
    chunks = [{"items": progs[i::nchunks]} for i in range(nchunks)]
    enumr.run_enum(rep, f"checks.{PROP}", chunks, workers=args.workers)
    rep.coverage.update({"programs": len(progs), "features": len(_cwl.FEATURES)})
    # guard against vacuous agreement ("both fail" because the generator emits invalid CWL): the reference runner must
    # accept (almost) every single-feature program
    rep.coverage["both_succeed"] = rep.coverage.get("both_succeed", 0)
    rep.coverage["both_fail"] = rep.coverage.get("both_fail", 0)
    if rep.coverage["both_succeed"] < 0.8 * len(progs):
        rep.internal_errors.append(f"generator problem: only {rep.coverage['both_succeed']} of {len(progs)} programs run on both "
                                   f"runners ({rep.coverage['both_fail']} fail on both) -- the agreement would be vacuous")
    rep.coverage["rule"] = (
        "CWL v1.2 workflows generated from 44 feature variants (ExpressionTool and CommandLineTool steps, scatter over 1-2 inputs "
        "with dotproduct / nested_crossproduct / flat_crossproduct and array lengths 0/1/3/12, when true/false and under scatter, "
        "pickValue first_non_null / the_only_non_null / all_non_null, linkMerge merge_nested / merge_flattened, valueFrom on self "
        "and another input, step-input default, nested sub-workflow, cwltool:Loop with 0/1/3/15 iterations and last/all output, "
        "record and File values): every single feature + ordered pairs (quick: one representative per feature class, every "
        "third pair; thorough: all ordered pairs of two representatives per class + all triples of 6 representatives), each run by StreamFlow's "
        "cwl-runner and by cwltool in sub-processes; oracle: both fail or equal output objects (File values by content); "
        "distinct = (feature combination, outcome of each runner)")
    rep.assumptions = ["cwltool 3.x in /venv is the reference implementation; --no-container; in-memory StreamFlow database",
                       "a later feature consumes the previous feature's output when the type fits (sequential composition), "
                       "otherwise both read the workflow inputs",
                       "workflows of 1-3 generated steps (sub-workflows and multi-step features add 1-2 more)"]
    return rep.finish()


if __name__ == "__main__":
    sys.exit(main())
