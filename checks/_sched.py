"""Shared scheduler harness for C10 / C11 / C12: real DefaultScheduler over fake connectors, driven by
job life-cycle scripts whose operations are interleaved freely (free choices) and overlapped in time
(driver-gate deviations); the scheduler's own awaits (location discovery, storage measurement) are gates."""
from __future__ import annotations

import asyncio
import os
import sys
from types import SimpleNamespace

from mc import runner, wfkit
from mc.env.fakes import FakeConnector, FakeDataManager, FakeDeploymentManager, FakeWrapper
from mc.explore import Explorer, Outcome
from mc.loop import execute

from streamflow.core.config import BindingConfig
from streamflow.core.deployment import DeploymentConfig, Target
from streamflow.core.scheduling import Hardware, HardwareRequirement, Storage
from streamflow.core.workflow import Job, Status
from streamflow.scheduling.scheduler import DefaultScheduler

ACTIVE = (Status.FIREABLE, Status.RUNNING)


class FixedReq(HardwareRequirement):
    def __init__(self, cores=0.0, memory=0.0, out=0.0, tmp=0.0):
        self.cores, self.memory, self.out, self.tmp = cores, memory, out, tmp

    @classmethod
    async def _load(cls, row, loading_context):
        return cls(**row)

    async def _save_additional_params(self, database):
        return {"cores": self.cores, "memory": self.memory, "out": self.out, "tmp": self.tmp}

    def eval(self, job: Job) -> Hardware:
        return Hardware(cores=self.cores, memory=self.memory, storage={
            "__outdir__": Storage(os.sep, self.out, {job.output_directory}),
            "__tmpdir__": Storage(os.sep, self.tmp, {job.tmp_directory})})


# ---- scripts: per-job life cycles as the engine emits them (step.py:752-800, failure_manager.py:296-345) -----
SCRIPTS = {
    "ok": ["sched", "RUNNING", "COMPLETED"],
    "dup_running": ["sched", "RUNNING", "RUNNING", "FAILED"],
    "fail_fireable": ["sched", "FAILED"],
    "dup_done": ["sched", "RUNNING", "COMPLETED", "COMPLETED!"],
    "cancel": ["sched", "CANCELLED"],
    "recover": ["sched", "RUNNING", "RECOVERY", "ROLLBACK", "sched", "RUNNING", "COMPLETED", "COMPLETED!"],
    "recover_fireable": ["sched", "RECOVERY", "ROLLBACK", "sched", "RUNNING", "COMPLETED"],
    "fail_dup": ["sched", "RUNNING", "FAILED", "FAILED!"],
    # out-of-order notifications the engine does not emit today but the scheduler API accepts (property C11: "regardless of
    # the order of notifications"): ROLLBACK straight from RUNNING / FIREABLE, a late RECOVERY after the terminal status
    "rollback_running": ["sched", "RUNNING", "ROLLBACK", "sched", "RUNNING", "COMPLETED"],
    "rollback_fireable": ["sched", "ROLLBACK", "sched", "RUNNING", "COMPLETED"],
    "rollback_then_failed": ["sched", "RUNNING", "ROLLBACK", "FAILED"],
    "run_forever": ["sched", "RUNNING"],  # keeps its resources until the end of the history
}
# an op ending with '!' is a duplicate that a different task of the engine may issue while the previous
# notification of the same job is still in flight (original _run_job's finally vs. the recovery workflow)

CONFIGS = {
    # name: (connectors spec, targets spec, requirement per job)
    "hw1": {"deps": {"A": {"locs": {"a0": {"cores": 2, "memory": 2, "storage": {"/": 4.0, "/tmp": 2.0}}}}},
            "targets": [("A", 1)], "req": {"cores": 1, "memory": 1, "out": 1, "tmp": 1}},
    "hwdisk": {"deps": {"A": {"locs": {"a0": {"cores": 8, "memory": 8, "storage": {"/": 3.0}}}}},
               "targets": [("A", 1)], "req": {"cores": 1, "memory": 1, "out": 1, "tmp": 1}},
    "slot1": {"deps": {"A": {"locs": {"a0": {"slots": 1}}}}, "targets": [("A", 1)], "req": None},
    "slot2": {"deps": {"A": {"locs": {"a0": {"slots": 2}}}}, "targets": [("A", 1)], "req": None},
    "slotnone": {"deps": {"A": {"locs": {"a0": {"slots": None}}}}, "targets": [("A", 1)], "req": None},
    "two_locs": {"deps": {"A": {"locs": {"a0": {"cores": 1, "memory": 1, "storage": {"/": 2.0}},
                                         "a1": {"cores": 1, "memory": 1, "storage": {"/": 2.0}}}}},
                 "targets": [("A", 1)], "req": {"cores": 1, "memory": 1, "out": 1, "tmp": 0}},
    "multi_loc": {"deps": {"A": {"locs": {"a0": {"slots": 1}, "a1": {"slots": 1}}}},
                  "targets": [("A", 2)], "req": None},
    "two_targets": {"deps": {"A": {"locs": {"a0": {"slots": 1}}}, "B": {"locs": {"b0": {"slots": 1}}}},
                    "targets": [("A", 1), ("B", 1)], "req": None},
    "stacked": {"deps": {"A": {"locs": {"a0": {"cores": 1, "memory": 2, "storage": {"/": 8.0}},
                                        "a1": {"cores": 1, "memory": 2, "storage": {"/": 8.0}}}},
                         "W": {"wraps": "A", "locs": {"w0": {"cores": 2, "memory": 2, "storage": {"/": 8.0}},
                                                      "w1": {"cores": 2, "memory": 2, "storage": {"/": 8.0}}}}},
                "targets": [("W", 1)], "req": {"cores": 1, "memory": 1, "out": 1, "tmp": 0}},
    "stacked_slots": {"deps": {"A": {"locs": {"a0": {"slots": 1}, "a1": {"slots": 1}}},
                               "W": {"wraps": "A", "locs": {"w0": {"cores": 2, "memory": 2, "storage": {"/": 8.0}},
                                                            "w1": {"cores": 2, "memory": 2, "storage": {"/": 8.0}}}}},
                      "targets": [("W", 1)], "req": {"cores": 1, "memory": 1, "out": 0, "tmp": 0}},
    # probes for a recorded finding: several wrapper locations of ONE deployment share one inner location
    "stacked_shared": {"deps": {"A": {"locs": {"a0": {"cores": 1, "memory": 2, "storage": {"/": 8.0}}}},
                                "W": {"wraps": "A", "locs": {"w0": {"cores": 2, "memory": 2, "storage": {"/": 8.0}},
                                                             "w1": {"cores": 2, "memory": 2, "storage": {"/": 8.0}}}}},
                       "targets": [("W", 1)], "req": {"cores": 1, "memory": 1, "out": 1, "tmp": 0}},
    "stacked_slots_shared": {"deps": {"A": {"locs": {"a0": {"slots": 1}}},
                                      "W": {"wraps": "A", "locs": {"w0": {"cores": 2, "memory": 2, "storage": {"/": 8.0}},
                                                                   "w1": {"cores": 2, "memory": 2, "storage": {"/": 8.0}}}}},
                             "targets": [("W", 1)], "req": {"cores": 1, "memory": 1, "out": 0, "tmp": 0}},
}
CONFIGS["hw2cores"] = {"deps": {"A": {"locs": {"a0": {"cores": 2, "memory": 8, "storage": {"/": 64.0}}}}},
                      "targets": [("A", 1)], "req": {"cores": 1, "memory": 1, "out": 0, "tmp": 0}}
CONFIGS["xy"] = {"deps": {"X": {"locs": {"x0": {"cores": 2, "memory": 8, "storage": {"/": 64.0}}}},
                          "Y": {"locs": {"y0": {"cores": 1, "memory": 8, "storage": {"/": 64.0}}}}},
                 "targets": [("X", 1), ("Y", 1)], "req": {"cores": 1, "memory": 1, "out": 0, "tmp": 0}}
# three levels: the wrapper W runs inside M (say, a queue manager) which runs on the hosts of A; every level reserves
CONFIGS["stacked3"] = {"deps": {"A": {"locs": {"a0": {"cores": 1, "memory": 2, "storage": {"/": 8.0}},
                                               "a1": {"cores": 1, "memory": 2, "storage": {"/": 8.0}}}},
                                "M": {"wraps": "A", "locs": {"m0": {"cores": 2, "memory": 4, "storage": {"/": 8.0}},
                                                             "m1": {"cores": 2, "memory": 4, "storage": {"/": 8.0}}}},
                                "W": {"wraps": "M", "locs": {"w0": {"cores": 2, "memory": 4, "storage": {"/": 8.0}},
                                                             "w1": {"cores": 2, "memory": 4, "storage": {"/": 8.0}}}}},
                       "targets": [("W", 1)], "req": {"cores": 1, "memory": 1, "out": 1, "tmp": 0}}
CONFIGS["stacked3_slots"] = {"deps": {"A": {"locs": {"a0": {"slots": 1}, "a1": {"slots": 1}}},
                                      "M": {"wraps": "A", "locs": {"m0": {"slots": 2}, "m1": {"slots": 2}}},
                                      "W": {"wraps": "M", "locs": {"w0": {"cores": 2, "memory": 2, "storage": {"/": 8.0}},
                                                                   "w1": {"cores": 2, "memory": 2, "storage": {"/": 8.0}}}}},
                             "targets": [("W", 1)], "req": {"cores": 1, "memory": 1, "out": 0, "tmp": 0}}
# two deployments whose capacity is one shared location: two wrappers on the same inner host (V, W over A), and the inner
# deployment targeted directly next to a wrapper on it
CONFIGS["two_wrappers"] = {"deps": {"A": {"locs": {"a0": {"cores": 1, "memory": 2, "storage": {"/": 8.0}}}},
                                    "V": {"wraps": "A", "locs": {"v0": {"cores": 2, "memory": 2, "storage": {"/": 8.0}}}},
                                    "W": {"wraps": "A", "locs": {"w0": {"cores": 2, "memory": 2, "storage": {"/": 8.0}}}}},
                           "targets": [("V", 1), ("W", 1)], "req": {"cores": 1, "memory": 1, "out": 0, "tmp": 0}}
CONFIGS["inner_and_wrapper"] = {"deps": {"A": {"locs": {"a0": {"cores": 1, "memory": 2, "storage": {"/": 8.0}}}},
                                         "W": {"wraps": "A", "locs": {"w0": {"cores": 2, "memory": 2, "storage": {"/": 8.0}}}}},
                                "targets": [("A", 1), ("W", 1)], "req": {"cores": 1, "memory": 1, "out": 0, "tmp": 0}}
# a multi-location target whose wrapper locations all sit on ONE inner host: the host must hold the SUM of what the
# selected locations need (C10 only: a job that needs 2 x 1 core on a 1-core host is never allocated)
CONFIGS["shared_multi_1core"] = {"deps": {"A": {"locs": {"a0": {"cores": 1, "memory": 4, "storage": {"/": 8.0}}}},
                                          "W": {"wraps": "A", "locs": {"w0": {"cores": 2, "memory": 2, "storage": {"/": 8.0}},
                                                                       "w1": {"cores": 2, "memory": 2, "storage": {"/": 8.0}}}}},
                                 "targets": [("W", 2)], "req": {"cores": 1, "memory": 1, "out": 0, "tmp": 0}}
CONFIGS["shared_multi_mem"] = {"deps": {"A": {"locs": {"a0": {"cores": 4, "memory": 3, "storage": {"/": 8.0}}}},
                                        "W": {"wraps": "A", "locs": {"w0": {"cores": 2, "memory": 2, "storage": {"/": 8.0}},
                                                                     "w1": {"cores": 2, "memory": 2, "storage": {"/": 8.0}}}}},
                               "targets": [("W", 2)], "req": {"cores": 1, "memory": 2, "out": 0, "tmp": 0}}
C10_ONLY = ("shared_multi_1core", "shared_multi_mem")
PROBE_CONFIGS = ("stacked_shared", "stacked_slots_shared")


def mount_of(path, mounts):
    best = "/"
    for m in mounts:
        if (path == m or path.startswith(m.rstrip("/") + "/")) and len(m) > len(best):
            best = m
    return best


class World:
    """Builds the scheduler and the reference capacity model for one execution."""

    def __init__(self, params, gated):
        cfg = CONFIGS[params["config"]]
        self.cfg = cfg
        self.connectors = {}
        for name, d in cfg["deps"].items():
            if "wraps" not in d:
                self.connectors[name] = FakeConnector(name, locations=d["locs"], gated=gated, usage=params.get("usage", 0))
        todo = [n for n, d in cfg["deps"].items() if "wraps" in d]
        while todo:  # inner wrappers first
            name = next(n for n in todo if cfg["deps"][n]["wraps"] in self.connectors)
            todo.remove(name)
            d = cfg["deps"][name]
            self.connectors[name] = FakeWrapper(name, connector=self.connectors[d["wraps"]], locations=d["locs"], gated=gated)
        ctx = SimpleNamespace(deployment_manager=FakeDeploymentManager(self.connectors), data_manager=FakeDataManager())
        self.sched = DefaultScheduler(ctx, retry_delay=params.get("retry_delay", 0))
        self.dcfg = {n: DeploymentConfig(name=n, type="fake", config={}, lazy=False) for n in self.connectors}
        self.binding = BindingConfig(targets=[Target(deployment=self.dcfg[d], locations=k, workdir="/work") for d, k in cfg["targets"]])
        self.req = FixedReq(**cfg["req"]) if cfg["req"] else None
        # heterogeneous jobs: per-job core requirement and per-job target list (indices into cfg["targets"])
        self.job_reqs = ([FixedReq(**dict(cfg["req"], cores=c)) for c in params["job_cores"]] if params.get("job_cores") else None)
        self.job_bindings = None
        if params.get("job_targets"):
            self.job_bindings = [BindingConfig(targets=[Target(deployment=self.dcfg[cfg["targets"][i][0]], locations=cfg["targets"][i][1],
                                                                 workdir="/work") for i in idx]) for idx in params["job_targets"]]
            self.job_target_idx = params["job_targets"]
        # capacity table: location name -> dict(cores, memory, storage{mount:size}) or slots
        self.capacity = {}
        self.wrap_of = {}
        for name, d in cfg["deps"].items():
            inner = list(cfg["deps"][d["wraps"]]["locs"]) if "wraps" in d else None
            for i, (ln, lc) in enumerate(d["locs"].items()):
                self.capacity[ln] = lc
                if inner:
                    self.wrap_of[ln] = inner[i % len(inner)]

    def req_of(self, j):
        return self.job_reqs[j] if self.job_reqs else self.req

    def binding_of(self, j):
        return self.job_bindings[j] if self.job_bindings else self.binding

    def chain(self, ln):
        out = [ln]
        while out[-1] in self.wrap_of:
            out.append(self.wrap_of[out[-1]])
        return out

    def usage(self):
        """Reference: per location, what FIREABLE/RUNNING jobs reserve (recomputed from job_allocations)."""
        use = {ln: {"cores": 0.0, "memory": 0.0, "storage": {}, "jobs": 0} for ln in self.capacity}
        for name, alloc in self.sched.job_allocations.items():
            if alloc.status not in ACTIVE:
                continue
            for loc in alloc.locations:
                for level, ln in enumerate(self.chain(loc.name)):
                    u = use[ln]
                    u["jobs"] += 1
                    req = self.req_of(int(name.rsplit(".", 1)[1])) if self.job_reqs else self.req
                    if req is not None:
                        u["cores"] += req.cores
                        u["memory"] += req.memory
                        if level == 0:  # storages of wrapper levels are not bound to the inner location here
                            mounts = list(self.capacity[ln].get("storage", {"/": 0}))
                            for path, size in (("/work/out", req.out), ("/work/tmp", req.tmp)):
                                m = mount_of(path, mounts)
                                u["storage"][m] = u["storage"].get(m, 0.0) + size
        return use

    def over(self):
        """List of over-allocated (location, what)"""
        bad = []
        for ln, u in self.usage().items():
            cap = self.capacity[ln]
            if "cores" in cap or "storage" in cap:
                if u["cores"] > cap.get("cores", 1):
                    bad.append((ln, f"cores {u['cores']} > {cap.get('cores', 1)}"))
                if u["memory"] > cap.get("memory", 1024):
                    bad.append((ln, f"memory {u['memory']} > {cap.get('memory', 1024)}"))
                for m, s in u["storage"].items():
                    if s > cap.get("storage", {"/": 1024.0}).get(m, 0.0):
                        bad.append((ln, f"storage {m} {s} > {cap.get('storage', {}).get(m)}"))
            else:
                slots = cap.get("slots") if cap.get("slots") is not None else 1
                if u["jobs"] > slots:
                    bad.append((ln, f"{u['jobs']} jobs > {slots} slots"))
        return bad

    def fits_now(self, j=None):
        """Can one more job (job j's requirement and targets, if heterogeneous) be hosted by some target right now?"""
        use = self.usage()
        saved = self.req
        if j is not None and self.job_reqs:
            self.req = self.job_reqs[j]
        try:
            targets = self.cfg["targets"]
            if j is not None and self.job_bindings:
                targets = [self.cfg["targets"][i] for i in self.job_target_idx[j]]
            return self._fits(use, targets)
        finally:
            self.req = saved

    def _fits(self, use, targets):
        for dep, k in targets:
            ok_locs = 0
            for ln in self.cfg["deps"][dep]["locs"]:
                good = True
                for level, l2 in enumerate(self.chain(ln)):
                    cap, u = self.capacity[l2], use[l2]
                    if "cores" in cap or "storage" in cap:
                        if self.req is not None:
                            if u["cores"] + self.req.cores > cap.get("cores", 1) or u["memory"] + self.req.memory > cap.get("memory", 1024):
                                good = False
                            if level == 0:
                                mounts = list(cap.get("storage", {"/": 0}))
                                need = {}
                                for path, size in (("/work/out", self.req.out), ("/work/tmp", self.req.tmp)):
                                    m = mount_of(path, mounts)
                                    need[m] = need.get(m, 0.0) + size
                                for m, s in need.items():
                                    if u["storage"].get(m, 0.0) + s > cap.get("storage", {"/": 1024.0}).get(m, 0.0):
                                        good = False
                    else:
                        slots = cap.get("slots") if cap.get("slots") is not None else 1
                        if u["jobs"] + 1 > slots:
                            good = False
                if good:
                    ok_locs += 1
            if ok_locs >= k:
                return True
        return False


async def _main(loop, params, res):
    loop.mute = True
    world = World(params, gated=params.get("gated", True))
    sched = world.sched
    scripts = [list(SCRIPTS[s]) for s in params["scripts"]]
    njobs = len(scripts)
    pos = [0] * njobs
    last_task = [None] * njobs
    sched_tasks = {}
    problems = []
    alloc_log = []

    # C10 hook: after every allocation the reference usage must fit the capacity
    orig_alloc = sched._allocate_job

    def hooked(job, hardware, connector, selected_locations, target):
        orig_alloc(job, hardware, connector, selected_locations, target)
        alloc_log.append(job.name)
        bad = world.over()
        if bad:
            problems.append(("over-allocation", f"after allocating {job.name}: {bad}; allocations "
                                                f"{[(n, a.status.name, [l.name for l in a.locations]) for n, a in sched.job_allocations.items()]}"))

    sched._allocate_job = hooked

    def job_obj(j):
        return Job(name=f"/s/0.{j}", workflow_id=1, inputs={}, input_directory="/work/in", output_directory="/work/out",
                   tmp_directory="/work/tmp")

    async def do_op(j, op):
        try:
            if op == "sched":
                await sched.schedule(job_obj(j), world.binding_of(j), world.req_of(j))
            else:
                await sched.notify_status(f"/s/0.{j}", Status[op.rstrip("!")])
        except Exception as e:  # noqa
            problems.append(("op-raises", f"{op} of job {j} raised {type(e).__name__}: {e}"))

    loop.mute = False
    made = []
    while True:
        menu = []
        for j in range(njobs):
            if pos[j] >= len(scripts[j]):
                continue
            op = scripts[j][pos[j]]
            prev = last_task[j]
            if prev is not None and not prev.done() and not op.endswith("!"):
                continue  # per-job order: previous operation of this job still in flight
            menu.append(j)
        if not menu:
            # nothing enabled: either finished or every remaining job is blocked in schedule()
            break
        forced = params.get("prefix_ops") or []
        if len(made) < len(forced):
            fj = forced[len(made)][0]
            if fj not in menu:
                break  # the forced history is not executable here (a job it needs is blocked): stop driving
            menu = [fj]
        c = loop.ctl.choose(len(menu), ("op", len(menu)), free=True)
        j = menu[c]
        op = scripts[j][pos[j]]
        pos[j] += 1
        t = asyncio.create_task(do_op(j, op), name=f"j{j}:{op}")
        last_task[j] = t
        if op == "sched":
            sched_tasks[j] = t
        made.append((j, op))
        await loop.gate("driver", prio=1)
    # final settle
    loop.mute = True
    await loop.gate("settle", prio=9)
    # some jobs may have been blocked: drive the remaining ops now that things settled (sequentially, to the end)
    progress = True
    while progress:
        progress = False
        for j in range(njobs):
            while pos[j] < len(scripts[j]) and (last_task[j] is None or last_task[j].done()):
                op = scripts[j][pos[j]]
                pos[j] += 1
                t = asyncio.create_task(do_op(j, op), name=f"j{j}:{op}")
                last_task[j] = t
                if op == "sched":
                    sched_tasks[j] = t
                made.append((j, op))
                await loop.gate("settle", prio=9)
                progress = True
    res["made"] = made
    res["problems"] = problems
    res["blocked"] = [j for j in range(njobs) if last_task[j] is not None and not last_task[j].done()]
    res["unfinished"] = [j for j in range(njobs) if pos[j] < len(scripts[j])]
    waiting = sorted(set(res["blocked"]) | {j for j in res["unfinished"] if scripts[j][pos[j] - 1] == "sched" or pos[j] == 0})
    res["fits_now"] = (any(world.fits_now(j) for j in waiting) if (world.job_reqs or world.job_bindings) else world.fits_now())
    res["active"] = [(n, a.status.name) for n, a in sched.job_allocations.items() if a.status in ACTIVE]
    res["hardware_locations"] = {k: (v.cores, v.memory, {m: s.size for m, s in v.storage.items()})
                                 for k, v in sched.hardware_locations.items()}
    res["over_final"] = world.over()
    res["alloc_log"] = alloc_log
    res["usage_param"] = params.get("usage", 0)
    for t in last_task:
        if t is not None and not t.done():
            t.cancel()


def run(params, prefix):
    res = {}
    ex = execute(lambda loop: _main(loop, params, res), prefix, idle_only=bool(params.get("idle_only")))
    return ex, res


def key_base(params):
    extra = f"|cores={params['job_cores']}" if params.get("job_cores") else ""
    if params.get("job_targets") and params["config"] in ("two_wrappers", "inner_and_wrapper"):
        extra += f"|targets={params['job_targets']}"
    return f"config={params['config']}|scripts={'+'.join(params['scripts'])}{extra}"  # same key in full and idle-only mode


def cases(tier, retry_delay=0, prop=None):
    out = []
    if prop == "C10":
        for c in C10_ONLY:
            out.append({"config": c, "scripts": ["ok"], "bound": 1, "retry_delay": retry_delay})
            out.append({"config": c, "scripts": ["ok", "ok"], "bound": 1, "retry_delay": retry_delay})
    quick = tier == "quick"
    trios = [("ok", "ok", "ok"), ("ok", "dup_done", "fail_fireable"), ("dup_running", "ok", "cancel"),
             ("recover", "ok", "ok"), ("recover_fireable", "ok", "fail_dup")]
    pairs = [("ok", "ok"), ("dup_done", "ok"), ("recover", "ok"), ("fail_dup", "ok"), ("recover", "recover_fireable"),
             ("cancel", "dup_running"), ("fail_fireable", "ok"), ("recover", "dup_done"),
             ("rollback_running", "ok"), ("rollback_fireable", "ok"), ("rollback_then_failed", "ok")]
    cfgs = [c for c in CONFIGS if c not in PROBE_CONFIGS and c not in ("hw2cores", "xy", "two_wrappers", "inner_and_wrapper") + C10_ONLY]
    for c in PROBE_CONFIGS:
        out.append({"config": c, "scripts": ["ok", "ok"], "bound": 0, "retry_delay": retry_delay})
    for c in cfgs:
        for p in pairs:
            long = sum(len(SCRIPTS[x]) for x in p) > 8
            if quick:
                if c.startswith("stacked3") and p not in (("ok", "ok"), ("recover", "ok"), ("rollback_running", "ok")):
                    continue
                if long and c not in ("hw1", "slot1", "stacked", "stacked3"):
                    continue
                b = 0 if long else 1
            else:
                b = 1
            out.append({"config": c, "scripts": list(p), "bound": b, "retry_delay": retry_delay})
        for t in (trios[:2] if quick else trios):
            if c not in (("hw1", "slot1", "two_targets") if quick else ("hw1", "hwdisk", "slot1", "two_targets", "stacked", "two_locs")):
                continue
            out.append({"config": c, "scripts": list(t), "bound": 0, "retry_delay": retry_delay})
    for c in ("hw1", "hwdisk"):
        out.append({"config": c, "scripts": ["ok", "dup_done"], "usage": 2 ** 20, "bound": 1, "retry_delay": retry_delay})
    # heterogeneous requests: a small request queued behind a large one / a multi-target request ahead of a single-target one
    pre = [[0, "sched"], [0, "RUNNING"], [1, "sched"], [1, "RUNNING"], [2, "sched"], [3, "sched"]]
    out.append({"config": "hw2cores", "scripts": ["ok", "run_forever", "ok", "ok"], "job_cores": [1, 1, 2, 1], "prefix_ops": pre,
                "bound": 1, "retry_delay": retry_delay})
    out.append({"config": "hw2cores", "scripts": ["ok", "ok", "ok", "ok"], "job_cores": [1, 1, 2, 1], "prefix_ops": pre,
                "bound": 0 if quick else 1, "retry_delay": retry_delay})
    out.append({"config": "xy", "scripts": ["ok", "run_forever", "ok", "ok"], "job_cores": [2, 1, 1, 1],
                "job_targets": [[0], [1], [0, 1], [0]], "prefix_ops": pre, "bound": 1, "retry_delay": retry_delay})
    out.append({"config": "xy", "scripts": ["ok", "ok", "ok", "ok"], "job_cores": [2, 1, 1, 1],
                "job_targets": [[0], [1], [0, 1], [0]], "prefix_ops": pre, "bound": 0 if quick else 1, "retry_delay": retry_delay})
    # two deployments sharing one location: each job is bound to ONE of them, so the second waits for a release that
    # happens through the other deployment
    for c in ("two_wrappers", "inner_and_wrapper"):
        for sc in ([("ok", "ok"), ("recover", "ok")] if quick else [("ok", "ok"), ("recover", "ok"), ("fail_dup", "ok"), ("rollback_running", "ok"),
                                                                    ("cancel", "ok")]):
            out.append({"config": c, "scripts": list(sc), "job_cores": [1, 1], "job_targets": [[0], [1]], "bound": 1, "retry_delay": retry_delay})
            out.append({"config": c, "scripts": list(sc), "job_cores": [1, 1], "job_targets": [[1], [0]], "bound": 1, "retry_delay": retry_delay})
    # deeper bound in the idle-only sub-space (I/O completes only when no callback is ready)
    deep = []
    for c in out:
        if c["config"] in PROBE_CONFIGS:
            continue
        n_ops = sum(len(SCRIPTS[x]) for x in c["scripts"])
        if len(c["scripts"]) == 2 and n_ops <= (8 if quick else 12):
            deep.append(dict(c, idle_only=True, bound=2 if quick else (3 if n_ops <= 7 else 2)))
    out.extend(deep)
    return out


# ---------------------------------------------------------------------------------------------
# judges
# ---------------------------------------------------------------------------------------------

def judge_c10(params, ex, res):
    base = "C10|" + key_base(params)
    if ex.hang or ex.error:
        return [(base + "|harness", f"{ex.error or ex.pending}")]
    fails = []
    for kind, msg in res["problems"]:
        if kind == "over-allocation":
            fails.append((base + "|over-allocation", msg + f"; ops {res['made']}"))
    if res["over_final"]:
        fails.append((base + "|over-allocation-final", f"{res['over_final']}; ops {res['made']}"))
    return fails[:2]


def judge_c11(params, ex, res):
    base = "C11|" + key_base(params)
    if ex.hang or ex.error:
        return [(base + "|harness", f"{ex.error or ex.pending}")]
    fails = []
    for kind, msg in res["problems"]:
        if kind == "op-raises":
            fails.append((base + "|notify-raises", msg + f"; ops {res['made']}"))
    for ln, (cores, mem, storage) in res["hardware_locations"].items():
        if cores < 0 or mem < 0 or any(s < 0 for s in storage.values()):
            fails.append((base + "|negative", f"reserved hardware of {ln} went negative: cores {cores} memory {mem} storage {storage}; ops {res['made']}"))
    if not res["active"] and not res["blocked"] and not res["unfinished"]:
        for ln, (cores, mem, storage) in res["hardware_locations"].items():
            if cores != 0 or mem != 0:
                fails.append((base + "|leak", f"all jobs terminal but {ln} still reserves cores {cores} memory {mem}; ops {res['made']}"))
            if res["usage_param"] == 0 and any(s != 0 for s in storage.values()):
                fails.append((base + "|storage-leak", f"all jobs terminal, measured usage 0, but {ln} storage reservation is {storage}; ops {res['made']}"))
            if res["usage_param"]:
                per = res["usage_param"] / 2 ** 20
                n_jobs = len(params["scripts"])
                for m, s in storage.items():
                    if s not in (0.0, per * n_jobs) and not (0 <= s <= per * n_jobs * 2):
                        fails.append((base + "|storage-usage", f"{ln} storage {m} = {s}, expected measured usage {per} per released job; ops {res['made']}"))
    return fails[:2]


def judge_c12(params, ex, res):
    base = "C12|" + key_base(params)
    if ex.error:
        return [(base + "|harness", f"{ex.error}")]
    fails = []
    if ex.hang:
        return [(base + "|hang", f"driver hangs: {ex.pending}")]
    if res["blocked"] or res["unfinished"]:
        if res["fits_now"]:
            fails.append((base + "|lost-wakeup", f"jobs {res['blocked'] or res['unfinished']} still wait in schedule() at quiescence although a "
                                                 f"target has enough free capacity (active allocations {res['active']}); ops {res['made']}"))
        elif not res["active"]:
            fails.append((base + "|never-granted", f"jobs {res['blocked']} wait forever with no active allocation; ops {res['made']}"))
    return fails


JUDGES = {"C10": judge_c10, "C11": judge_c11, "C12": judge_c12}


def make_run_case(prop):
    def run_case(params, prefix):
        ex, res = run(params, prefix)
        fails = JUDGES[prop](params, ex, res)
        obs = (tuple(res.get("alloc_log", [])), tuple(res.get("blocked", [])), str(res.get("hardware_locations")))
        return Outcome(ex.trace, fails, obs=hash(obs), steps=ex.steps, states=ex.states, signature=ex.signature)

    return run_case


def generic_main(prop, module, argv, retry_delay=0, rule_extra=""):
    from checks import _exec

    args = runner.tier_args(argv)
    wfkit.quiet_logging()
    if args.replay:
        return _exec.replay_main(prop, module, args.replay)
    cs = cases(args.tier, retry_delay=retry_delay, prop=prop)
    bound = 1 if args.tier == "quick" else 2
    cb = {i: c["bound"] for i, c in enumerate(cs)}
    return _exec.generic_main(
        prop, module, "model_checking", cs, bound, cb,
        rule="10 location configurations (hardware cores/memory/storage on 1-2 mount points, slots 1/2/None, two "
             "locations, multi-location targets, two targets, stacked wrapper over hardware/slot locations) x tuples "
             "of 2-3 per-job life-cycle scripts (ok, duplicated RUNNING/terminal, FIREABLE->FAILED/CANCELLED, "
             "RECOVERY->ROLLBACK->re-schedule) x ALL interleavings of the jobs' operations (free choices) x overlap of "
             "operations in time and completion order of the scheduler's own awaits (deviations up to the bound); "
             + rule_extra,
        assumptions=["per-job notification orders: those the engine emits (step.py _run_job, failure_manager), duplicated "
                     "notifications, and ROLLBACK arriving straight from RUNNING/FIREABLE; arbitrary release order ACROSS jobs",
                     "wrapper storages are not bound to the inner location (no bind mounts in the configurations)",
                     "environment model of DESIGN.md 2.1"],
        args=args, time_cap=280 if args.tier == "quick" else 1500)
