"""C24 -- remote path operations agree with the local filesystem.

Two equal directory trees: every operation is performed on one through ``LocalStreamFlowPath`` and on the other
through ``RemoteStreamFlowPath`` over a shell-based remote location; return values (or the fact of raising) and the
resulting trees must agree."""
from __future__ import annotations

import asyncio
import hashlib
import itertools
import json
import os
import shutil
import stat
import sys
from types import SimpleNamespace

from mc import enumr, runner, wfkit
from mc.enumr import ChunkResult
from mc.env.fakes import FakeDataManager, FakeDeploymentManager
from mc.env.shellremote import ShellRemoteConnector

from streamflow.core.deployment import ExecutionLocation
from streamflow.data.remotepath import StreamFlowPath

PROP = "C24"

NAMES = {"plain": "f.txt", "space": "a b.txt", "squote": "it's", "dquote": 'q"q', "dollar": "$x", "backtick": "`id`",
         "star": "s*r", "qmark": "q?", "bracket": "[b]", "dash": "-n", "unicode": "ü☃", "semicolon": "a;b", "amp": "a&b",
         "backslash": "b\\c", "trailing-space": "t ", "hash": "#h", "tilde": "~t", "paren": "p(1)", "newline": "n\nl"}
CONTENTS = {"empty": "", "text": "hello", "trailing-newline": "hello\n", "padded": "  padded  ", "unicode": "é€ ✓\n",
            "multiline": "l1\nl2\n\nl4\n", "only-newlines": "\n\n", "cjk-long": "漢字テスト" * 40, "ascii-long": "0123456789" * 30}
STATES = ["absent", "file", "dir", "symlink", "dangling"]
NAME_GROUP = {"plain": "plain", "unicode": "unicode", "space": "space", "trailing-space": "space", "squote": "quote",
              "dquote": "quote", "dollar": "shell-meta", "backtick": "shell-meta", "semicolon": "shell-meta", "amp": "shell-meta",
              "backslash": "shell-meta", "hash": "shell-meta", "tilde": "shell-meta", "paren": "shell-meta", "star": "glob-meta",
              "qmark": "glob-meta", "bracket": "glob-meta", "dash": "dash", "newline": "newline"}


def worker_init():
    wfkit.quiet_logging()


def snapshot(root):
    out = {}
    for dp, dns, fns in os.walk(root):
        for n in dns + fns:
            p = os.path.join(dp, n)
            rel = os.path.relpath(p, root)
            st = os.lstat(p)
            if stat.S_ISLNK(st.st_mode):
                out[rel] = ("l", os.readlink(p).replace(root, "<root>"))
            elif stat.S_ISDIR(st.st_mode):
                out[rel] = ("d", stat.S_IMODE(st.st_mode) & 0o700)
            else:
                with open(p, "rb") as f:
                    out[rel] = ("f", stat.S_IMODE(st.st_mode) & 0o700, hashlib.sha1(f.read()).hexdigest(), st.st_nlink > 1)
    return out


def setup(root, name, state, content="payload\n"):
    shutil.rmtree(root, ignore_errors=True)
    os.makedirs(root)
    with open(os.path.join(root, "other.txt"), "w") as f:
        f.write("other")
    os.makedirs(os.path.join(root, "sub"))
    with open(os.path.join(root, "sub", "inner.txt"), "w") as f:
        f.write("inner")
    p = os.path.join(root, name)
    if state == "file":
        with open(p, "w") as f:
            f.write(content)
    elif state == "dir":
        os.makedirs(p)
        with open(os.path.join(p, "child"), "w") as f:
            f.write("child")
    elif state == "symlink":
        os.symlink(os.path.join(root, "other.txt"), p)
    elif state == "dangling":
        os.symlink(os.path.join(root, "missing"), p)
    return p


async def perform(op, path: StreamFlowPath, root, arg=None):
    """returns a comparable result"""
    if op == "exists":
        return await path.exists()
    if op == "is_file":
        return await path.is_file()
    if op == "is_dir":
        return await path.is_dir()
    if op == "is_symlink":
        return await path.is_symlink()
    if op == "is_executable":
        return await path.is_executable()
    if op.startswith("mkdir"):
        await path.mkdir(mode=0o750, parents="p" in op.split("-")[1:], exist_ok="e" in op.split("-")[1:])
        return None
    if op == "mkdir_nested":
        await (path / "x" / "y").mkdir(parents=True, exist_ok=True)
        return None
    if op == "write_text":
        await path.write_text(arg)
        return None
    if op == "read_text":
        return await path.read_text()
    if op == "size":
        return await path.size()
    if op == "checksum":
        return await path.checksum()
    if op == "resolve":
        r = await path.resolve()
        return None if r is None else os.path.relpath(str(r), os.path.realpath(root))
    if op == "rmtree":
        await path.rmtree()
        return None
    if op == "symlink_to":
        await path.symlink_to(os.path.join(root, "other.txt"))
        return None
    if op == "hardlink_to":
        await path.hardlink_to(os.path.join(root, "other.txt"))
        return None
    if op == "chmod":
        await path.chmod(0o700)
        return None
    if op == "glob":
        out = []
        async for p in path.parent.glob(arg):
            out.append(os.path.relpath(str(p), root))
        return sorted(out)
    if op == "walk":
        out = []
        async for dp, dns, fns in path.parent.walk(top_down=arg):
            out.append((os.path.relpath(str(dp), root), tuple(sorted(dns)), tuple(sorted(fns))))
        return sorted(out)
    raise ValueError(op)


async def one(op, name, state, arg, lroot, rroot, lctx, rctx, lloc, rloc, content="payload\n"):
    res = {}
    for side, root, ctx, loc in (("local", lroot, lctx, lloc), ("remote", rroot, rctx, rloc)):
        p = setup(root, name, state, content)
        path = StreamFlowPath(p, context=ctx, location=loc)
        try:
            r = await asyncio.wait_for(perform(op, path, root, arg), timeout=10)
            res[side] = ("ok", r)
        except asyncio.TimeoutError:
            res[side] = ("timeout", None)
        except Exception as e:  # noqa
            res[side] = ("raises", None, type(e).__name__)
        res[side + "_tree"] = snapshot(root)
    return res


def _treediff(res):
    lt, rt = res["local_tree"], res["remote_tree"]
    return {k: (lt.get(k), rt.get(k)) for k in set(lt) | set(rt) if lt.get(k) != rt.get(k)}


def _norm(x, name):
    if isinstance(x, str):
        return x.replace(name, "<N>")
    if isinstance(x, (list, tuple)):
        return tuple(_norm(v, name) for v in x)
    if isinstance(x, dict):
        return tuple(sorted((_norm(k, name), _norm(v, name)) for k, v in x.items()))
    return x


def _sig(res, name):
    """outcome of both sides with the name under test abstracted away"""
    return repr((_norm(res["local"][:2], name), _norm(res["remote"][:2], name), _norm(_treediff(res), name)))


def judge(op, label, state, res):
    l, r = res["local"], res["remote"]
    msgs = []
    if l[0] != r[0]:
        msgs.append(f"local {l} but remote {r}")
    elif l[0] == "ok" and l[1] != r[1]:
        msgs.append(f"local returned {l[1]!r}, remote returned {r[1]!r}")
    if res["local_tree"] != res["remote_tree"]:
        lt, rt = res["local_tree"], res["remote_tree"]
        d = {k: (lt.get(k), rt.get(k)) for k in set(lt) | set(rt) if lt.get(k) != rt.get(k)}
        msgs.append(f"resulting trees differ: {dict(list(d.items())[:4])}")
    return msgs


def check_chunk(chunk):
    worker_init()
    scratch = os.path.join(runner.scratch_dir(), f"c24-{os.getpid()}")
    os.makedirs(scratch, exist_ok=True)
    loop = asyncio.new_event_loop()
    asyncio.set_event_loop(loop)
    conns = []

    def fresh_remote(bufsize=65536):
        c = ShellRemoteConnector("rem", scratch, transferBufferSize=bufsize)
        conns.append(c)
        return SimpleNamespace(deployment_manager=FakeDeploymentManager({"rem": c}), data_manager=FakeDataManager())

    lctx = SimpleNamespace(deployment_manager=FakeDeploymentManager({}), data_manager=FakeDataManager())
    lloc = ExecutionLocation(name="__LOCAL__", deployment="loc", local=True)
    rloc = ExecutionLocation(name="sh0", deployment="rem", local=False)
    lroot, rroot = os.path.join(scratch, "tree"), os.path.join(scratch, "tree")  # same path, set up afresh for each side
    fails, n, distinct = {}, 0, set()
    try:
        for item in chunk["items"]:
            op, state = item["op"], item["state"]
            content = CONTENTS.get(item.get("content", ""), "payload\n")
            base_sig = None
            for ncls in ["plain"] + [x for x in item["names"] if x != "plain"]:
                n += 1
                name = NAMES[ncls]
                arg = item.get("arg")
                if op == "write_text":
                    arg = content
                if op == "glob":
                    arg = item["arg"].replace("{name}", name)
                rctx = fresh_remote(item.get("bufsize", 65536))
                res = loop.run_until_complete(one(op, name, state, arg, lroot, rroot, lctx, rctx, lloc, rloc, content))
                for c in conns:
                    try:
                        loop.run_until_complete(asyncio.wait_for(c.undeploy(False), timeout=8))
                    except Exception:  # noqa
                        pass
                conns.clear()
                msgs = judge(op, ncls, state, res)
                sig = _sig(res, name)
                if ncls == "plain":
                    base_sig = sig
                distinct.add((op, NAME_GROUP[ncls], state, item.get("content"), res["local"][0], bool(msgs)))
                if msgs:
                    suffix = (f"|content={item['content']}" if item.get("content") and op in ("read_text", "write_text") else "") + (
                        f"|buffer={item['bufsize']}" if item.get("bufsize") else "") + (
                        f"|pattern={item['arg']}" if op == "glob" else "") + (f"|top_down={item['arg']}" if op == "walk" else "")
                    if op in ("glob", "walk") and ncls == "newline":
                        key = f"C24|{op}|cause=line-based-parsing-of-command-output-breaks-on-a-newline-in-a-name"
                    elif op == "glob" and NAME_GROUP[ncls] in ("space", "quote", "shell-meta", "dash"):
                        key = "C24|glob|cause=pattern-interpolated-unquoted-and-output-split-on-whitespace"
                    elif op == "glob" and NAME_GROUP[ncls] == "glob-meta":
                        key = "C24|glob|cause=unmatched-pattern-kept-literal-by-the-shell"
                    elif op == "resolve" and name != name.strip() and res["local"][0] == "ok" and res["remote"][0] == "ok" and \
                            str(res["remote"][1]) == str(res["local"][1]).strip():
                        key = "C24|resolve|cause=trailing-whitespace-of-the-name-stripped"
                    elif ncls == "plain" or sig == base_sig:
                        # the two implementations disagree on the operation itself, whatever the name
                        key = f"C24|{op}|state={state if op not in ('symlink_to', 'hardlink_to') else 'exists'}{suffix}|semantics"
                    else:
                        key = f"C24|{op}|name={NAME_GROUP[ncls]}|state={state}{suffix}"
                    fails.setdefault(key, (key, f"{op}({arg!r}) on name {name!r} (state {state}): " + "; ".join(msgs),
                                           {"items": [dict(item, names=[ncls])]}))
    finally:
        loop.close()
        shutil.rmtree(scratch, ignore_errors=True)
    return ChunkResult(n, distinct, list(fails.values()), samples=[chunk["items"][0]])


def all_items(tier):
    quick = tier == "quick"
    names = list(NAMES) if not quick else ["plain", "space", "squote", "dquote", "dollar", "star", "dash", "unicode", "semicolon", "bracket", "backslash", "newline"]
    items = []

    def add(**kw):
        items.append(dict(kw, names=names))

    for op in ("exists", "is_file", "is_dir", "is_symlink", "is_executable", "size", "checksum", "resolve",
               "mkdir", "mkdir-p", "mkdir-e", "mkdir-p-e", "rmtree", "symlink_to", "hardlink_to", "chmod"):
        for st in STATES:
            add(op=op, state=st)
    for st in ("absent", "dir"):
        add(op="mkdir_nested", state=st)
    for c in CONTENTS:
        add(op="write_text", state="absent", content=c)
        # a transfer buffer smaller than the text: the writer must send every BYTE of the encoded text, in several chunks
        add(op="write_text", state="absent", content=c, bufsize=16)
        add(op="write_text", state="absent", content=c, bufsize=64)
        if c not in ("cjk-long", "ascii-long"):
            add(op="read_text", state="file", content=c)
    add(op="write_text", state="file", content="text")
    add(op="read_text", state="absent", content="text")
    add(op="read_text", state="symlink", content="text")
    for st in ("file", "dir", "absent"):
        for pat in ("*", "?*", "{name}", "*.txt", "sub/*", "nomatch*"):
            add(op="glob", state=st, arg=pat)
        for td in (True, False):
            add(op="walk", state=st, arg=td)
    return items


def main(argv=None):
    args = runner.tier_args(argv)
    worker_init()
    if args.replay:
        p = json.load(open(args.replay))["replay"]
        r = check_chunk(p)
        for k, m, _ in r.failures:
            print(f"VIOLATION property={PROP} replay={args.replay}\n  {k}: {m}")
        return 1 if r.failures else 0
    rep = runner.Report(PROP, args.tier, "exploration", runner.seed())
    items = all_items(args.tier)
    chunks = [{"items": [it]} for it in items]
    enumr.run_enum(rep, f"checks.{PROP}", chunks, workers=args.workers)
    rep.coverage.update({"items": sum(len(i["names"]) for i in items), "operations": len({i['op'] for i in items}), "name_classes": len(NAMES)})
    rep.coverage["rule"] = (
        "every operation of the property (exists, is_file/dir/symlink/executable, mkdir +-parents +-exist_ok, nested mkdir, "
        "write_text, read_text, size, checksum, resolve, rmtree, symlink_to, hardlink_to, chmod, glob with 6 patterns, walk "
        "top-down/bottom-up) x 10 (thorough 18) name classes (space, quotes, $, backtick, ;, &, glob characters, leading dash, "
        "unicode, ...) x target states {absent, file, dir, symlink, dangling symlink} x 7 content classes for read/write; each "
        "performed through LocalStreamFlowPath and through RemoteStreamFlowPath over a shell-based remote location on "
        "identically prepared trees; oracle: same result (or both raise) and identical resulting trees; distinct = (operation, "
        "name group, state, content, outcome)")
    rep.assumptions = ["the remote location is /bin/sh on this machine (ShellRemoteConnector); stream commands are handed to sh -c "
                       "as a remote shell would",
                       "exception classes are not compared (OSError locally, WorkflowExecutionException remotely), only raise/no raise"]
    return rep.finish()


if __name__ == "__main__":
    sys.exit(main())
