"""C02 -- combinators emit exactly the right combinations, whatever the arrival order.

Real CombinatorStep.run with real Dot/Cartesian combinators (and the nestings the engine builds); a
driver delivers the tokens of every input port in every enumerated arrival order."""
from __future__ import annotations

import asyncio
import itertools
import sys

from mc import runner, wfkit
from mc.explore import Explorer, run_iterated, Outcome
from mc.loop import execute
from mc.stepdrv import Stream, deliver_all

from streamflow.core.workflow import Token, Workflow
from streamflow.workflow.combinator import CartesianProductCombinator, DotProductCombinator
from streamflow.workflow.step import CombinatorStep
from streamflow.workflow.token import TerminationToken

PROP = "C02"


def worker_init():
    wfkit.quiet_logging()
    wfkit.patch_port_put()


# ---------------------------------------------------------------------------------------------
# combinator trees: ["dot", child...] / ["cart", depth, child...]; a child is a port name or a tree
# ---------------------------------------------------------------------------------------------

def build_comb(tree, wf, counter):
    kind = tree[0]
    counter[0] += 1
    name = f"{kind}{counter[0]}"
    if kind == "dot":
        comb, kids = DotProductCombinator(name=name, workflow=wf), tree[1:]
    else:
        comb, kids = CartesianProductCombinator(name=name, workflow=wf, depth=tree[1]), tree[2:]
    for k in kids:
        if isinstance(k, str):
            comb.add_item(k)
        else:
            inner = build_comb(k, wf, counter)
            comb.add_combinator(inner, inner.get_items(recursive=True))
    return comb


def ports_of(tree):
    kids = tree[1:] if tree[0] == "dot" else tree[2:]
    out = []
    for k in kids:
        out.extend([k] if isinstance(k, str) else ports_of(k))
    return out


def tree_str(tree):
    kids = tree[1:] if tree[0] == "dot" else tree[2:]
    head = "Dot" if tree[0] == "dot" else f"Cart{tree[1]}"
    return head + "{" + ",".join(k if isinstance(k, str) else tree_str(k) for k in kids) + "}"


# ---------------------------------------------------------------------------------------------
# reference model (plain python).  An element is (tag, {port: source id}).
# ---------------------------------------------------------------------------------------------

def comps(tag):
    return tag.split(".")


def is_anc_or_eq(a, b):
    ca, cb = comps(a), comps(b)
    return cb[: len(ca)] == ca


def ref_eval(tree, streams):
    """streams: {port: [tags]} -> list of elements emitted by this (sub)tree"""
    kids = tree[1:] if tree[0] == "dot" else tree[2:]
    cols = []
    for k in kids:
        if isinstance(k, str):
            cols.append([(t, {k: f"{k}:{t}"}) for t in streams.get(k, [])])
        else:
            cols.append(ref_eval(k, streams))
    if tree[0] == "dot":
        out = []
        tags = sorted({t for col in cols for t, _ in col})
        for tau in tags:
            pick = []
            for col in cols:
                cands = [e for e in col if is_anc_or_eq(e[0], tau)]
                if not cands:
                    pick = None
                    break
                # tags of one input form an antichain, so at most one ancestor-or-self exists; several
                # elements with the same tag (inner combinator duplicates) are not in the alphabet
                pick.append(max(cands, key=lambda e: len(comps(e[0]))))
            if pick is None:
                continue
            merged = {}
            for _, m in pick:
                merged.update(m)
            out.append((tau, merged))
        return out
    depth = tree[1]
    out = []
    keys = sorted({".".join(comps(t)[:-depth]) for col in cols for t, _ in col})
    for kappa in keys:
        groups = [[e for e in col if ".".join(comps(e[0])[:-depth]) == kappa] for col in cols]
        if any(not g for g in groups):
            continue
        for combo in itertools.product(*groups):
            suffix = [comps(e[0])[-1] for e in combo]
            merged = {}
            for _, m in combo:
                merged.update(m)
            # every member is retagged own_prefix + suffix; members of one key share the prefix
            out.append((".".join(comps(combo[0][0])[:-1] + suffix), merged))
    return out


# ---------------------------------------------------------------------------------------------
# harness
# ---------------------------------------------------------------------------------------------

async def _main(loop, params, res):
    tree, streams = params["tree"], params["streams"]
    loop.mute = True
    ctx = wfkit.make_context()
    wf = Workflow(ctx, config={}, name="w")
    comb = build_comb(tree, wf, [0])
    step = wf.create_step(CombinatorStep, name="/c-combinator", combinator=comb)
    inp, outp = {}, {}
    for p in ports_of(tree):
        inp[p] = wf.create_port(name=f"in-{p}")
        outp[p] = wf.create_port(name=f"out-{p}")
        step.add_input_port(p, inp[p])
        step.add_output_port(p, outp[p])
    await wfkit.save_workflow(wf)
    sts = []
    free_terms = params.get("terms", "end") == "free"
    for p in ports_of(tree):
        toks = []
        for tg in streams.get(p, []):
            t = Token(f"{p}:{tg}", tag=tg, recoverable=True)
            await t.save(ctx.database, port_id=inp[p].persistent_id)
            toks.append(t)
        sts.append(Stream(p, inp[p], toks, fifo=False, final=TerminationToken() if free_terms else None))
    task = asyncio.create_task(step.run(), name="step")
    loop.mute = False
    order = params.get("order")
    made = await deliver_all(loop, sts, order=[tuple(o) for o in order] if order else None)
    if not free_terms:
        for p in ports_of(tree):
            inp[p].put(TerminationToken())
    try:
        await task
        res["raised"] = None
    except Exception as e:  # noqa
        res["raised"] = f"{type(e).__name__}: {e}"
    loop.mute = True
    res["made"] = made
    res["status"] = step.status.name
    dumps = {p: [t for t in outp[p].token_list] for p in outp}
    n = {len([t for t in v if not isinstance(t, TerminationToken)]) for v in dumps.values()}
    res["lens"] = sorted(n)
    combos = []
    if len(n) == 1:
        k = n.pop()
        for i in range(k):
            tags = {dumps[p][i].tag for p in dumps}
            combos.append((tuple(sorted(tags)), tuple(sorted((p, dumps[p][i].value) for p in dumps))))
    res["combos"] = combos
    res["terminated"] = {p: bool(v) and isinstance(v[-1], TerminationToken) for p, v in dumps.items()}
    await ctx.close()


def judge(params, ex, res):
    tree = params["tree"]
    base = f"C02|{tree_str(tree)}"
    skey = "|streams=" + ";".join(f"{p}:{','.join(v)}" for p, v in sorted(params["streams"].items()))
    if ex.hang:
        return [(base + skey + "|hang", f"combinator step never terminates: {ex.pending}; deliveries {res.get('made')}")]
    if ex.error:
        return [(base + skey + "|error", f"{ex.error[0]}: {ex.error[1]!r}")]
    if res.get("raised"):
        return [(base + "|raises", f"step.run() raised {res['raised']} (streams {params['streams']})")]
    fails = []
    if len(res["lens"]) != 1:
        fails.append((base + skey + "|ragged", f"output ports carry different numbers of tokens {res['lens']}"))
        return fails
    exp = sorted(((tag,), tuple(sorted(m.items()))) for tag, m in ref_eval(tree, params["streams"]))
    got = sorted(res["combos"])
    if got != exp:
        missing = [e for e in exp if e not in got]
        extra = [g for g in got if g not in exp] or [g for g in got if got.count(g) > exp.count(g)]
        fails.append((base + skey + "|combos",
                      f"emitted multiset differs from the reference: missing {missing[:4]} unexpected {extra[:4]} "
                      f"(emitted {len(got)}, expected {len(exp)}); arrival order {res['made']}"))
    if not all(res["terminated"].values()):
        fails.append((base + skey + "|noterm", f"output ports not terminated: {res['terminated']}"))
    return fails


def run_case(params, prefix):
    res = {}
    ex = execute(lambda loop: _main(loop, params, res), prefix)
    fails = judge(params, ex, res)
    return Outcome(ex.trace, fails, obs=hash(str(sorted(res.get("combos", [])))), steps=ex.steps, states=ex.states,
                   signature=ex.signature)


# ---------------------------------------------------------------------------------------------
# catalogue
# ---------------------------------------------------------------------------------------------

DOT2 = ["dot", "a", "b"]
DOT3 = ["dot", "a", "b", "c"]
CART2 = ["cart", 1, "a", "b"]
CART3 = ["cart", 1, "a", "b", "c"]
DOT_CART = ["dot", ["cart", 1, "a", "b"], "c"]  # _create_residual_combinator over a crossproduct scatter
DOT_DOT = ["dot", ["dot", "a", "b"], "c"]  # residual combinator over a dotproduct scatter
CART_DOT = ["cart", 1, ["dot", "a", "b"], "c"]  # never built by the engine (finding F12)


def catalogue(tier):
    c = []

    def add(tree, streams, terms="free"):
        total = sum(len(v) for v in streams.values())
        c.append({"tree": tree, "streams": streams, "terms": terms if total <= 4 else "end"})

    add(DOT2, {"a": ["0"], "b": ["0"]})
    add(DOT2, {"a": ["0.0", "0.1", "0.2"], "b": ["0.0", "0.1", "0.2"]})
    add(DOT2, {"a": ["0.0", "0.1", "0.2"], "b": ["0"]})
    add(DOT2, {"a": ["0.0", "0.1"], "b": ["0.1", "0.2"]})
    add(DOT2, {"a": ["0.9", "0.10", "0.11"], "b": ["0.9", "0.10", "0.11"]})
    add(DOT2, {"a": ["0.1.0", "0.1.1", "0.0.0"], "b": ["0.1"]})
    # sibling tags sharing a decimal prefix (0.1 is NOT a parent of 0.10): seeded defect C05-1
    add(DOT2, {"a": ["0.1", "0.10"], "b": ["0.1", "0.10"]})
    add(DOT2, {"a": ["0.1", "0.10", "0.11"], "b": ["0.1", "0.10", "0.11"]})
    add(DOT2, {"a": ["0.1.0", "0.10.0"], "b": ["0.1", "0.10"]})
    add(CART2, {"a": ["0.1", "0.10"], "b": ["0.1", "0.10"]})
    add(DOT2, {"a": [], "b": ["0"]})
    add(DOT3, {"a": ["0.0.0", "0.0.1"], "b": ["0.0"], "c": ["0"]})
    add(DOT3, {"a": ["0.0", "0.1"], "b": ["0.0", "0.1"], "c": ["0.0", "0.1"]})
    add(CART2, {"a": ["0.0", "0.1"], "b": ["0.0", "0.1", "0.2"]})
    add(CART2, {"a": ["0.0"], "b": []})
    add(CART2, {"a": ["0.0", "0.1"], "b": ["0.0"]})
    add(CART2, {"a": ["1.0", "0.0"], "b": ["0.0", "1.0"]})
    add(CART2, {"a": ["0.9", "0.10"], "b": ["0.11", "0.2"]})
    add(CART3, {"a": ["0.0", "0.1"], "b": ["0.0", "0.1"], "c": ["0.0", "0.1"]})
    add(DOT_CART, {"a": ["0.0", "0.1"], "b": ["0.0", "0.1"], "c": ["0"]})
    add(DOT_CART, {"a": ["0.0", "0.1"], "b": ["0.0"], "c": ["0.0.0", "0.1.0"]})
    add(DOT_DOT, {"a": ["0.0", "0.1"], "b": ["0.0", "0.1"], "c": ["0"]})
    add(DOT_DOT, {"a": ["0.0", "0.1"], "b": ["0"], "c": ["0.0", "0.1"]})
    add(CART_DOT, {"a": ["0.0"], "b": ["0.0"], "c": ["0.0"]})
    # systematic part: EVERY assignment of a small set of stream shapes to the ports of a dot product (parents shared
    # by several ports, children on others, grand-children, a missing partner) -- seeded defect C02-1 needs two ports
    # with the same parent tag and a third with its children
    shapes = {"P": ["0"], "C": ["0.0", "0.1"], "C1": ["0.1"], "G": ["0.0.0", "0.0.1"]}
    if tier == "thorough":
        shapes["E"] = []
        shapes["K"] = ["0.9", "0.10"]
    names = sorted(shapes)
    seen = {tuple(sorted((k, tuple(v)) for k, v in x["streams"].items())) + (tree_str(x["tree"]),) for x in c}
    for tree, ports in ((DOT3, "abc"), (DOT2, "ab")):
        for combo in itertools.product(names, repeat=len(ports)):
            streams = {p: list(shapes[n]) for p, n in zip(ports, combo)}
            key = tuple(sorted((k, tuple(v)) for k, v in streams.items())) + (tree_str(tree),)
            if key in seen or sum(len(v) for v in streams.values()) > 6:
                continue
            seen.add(key)
            add(tree, streams)
    if tier == "thorough":
        add(DOT2, {"a": ["0.0", "0.1", "0.2", "0.3"], "b": ["0.0", "0.1", "0.2"]})
        add(DOT2, {"a": ["0.0.0", "0.0.1", "0.1.0"], "b": ["0.0", "0.1"]})
        add(DOT2, {"a": ["0.0.9", "0.0.10", "0.0.11"], "b": ["0.0"]})
        add(DOT3, {"a": ["0.0", "0.1"], "b": ["0"], "c": ["0.0", "0.1", "0.2"]})
        add(DOT3, {"a": ["0.0.0"], "b": ["0.0.0", "0.0.1"], "c": ["0.0"]})
        add(CART2, {"a": ["0.0", "0.1", "0.2"], "b": ["0.0", "0.1", "0.2", "0.3"]})
        add(CART2, {"a": ["0.0.0", "0.0.1"], "b": ["0.0.0", "0.1.0"]})
        add(CART3, {"a": ["0.0"], "b": ["0.0", "0.1"], "c": ["0.0", "0.1", "0.2"]})
        add(DOT_CART, {"a": ["0.0", "0.1"], "b": ["0.0", "0.1", "0.2"], "c": ["0"]})
        add(DOT_CART, {"a": ["0.0", "0.1"], "b": ["0.0", "0.1"], "c": ["0.0.0", "0.0.1", "0.1.0"]})
        add(DOT_DOT, {"a": ["0.0", "0.1", "0.2"], "b": ["0.0", "0.1", "0.2"], "c": ["0"]})
        add(DOT_DOT, {"a": ["0.0.0", "0.0.1"], "b": ["0.0"], "c": ["0"]})
    return c


def main(argv=None):
    args = runner.tier_args(argv)
    worker_init()
    if args.replay:
        import json

        payload = json.load(open(args.replay))["replay"]
        out = run_case(payload["case"], runner.unrle(payload["choices"]))
        for k, m in out.failures:
            print(f"VIOLATION property={PROP} replay={args.replay}\n  {k}: {m}")
        return 1 if out.failures else 0
    rep = runner.Report(PROP, args.tier, "model_checking", runner.seed())
    cases = catalogue(args.tier)
    bound = 1 if args.tier == "quick" else 2
    cb = {}
    for i, c in enumerate(cases):
        total = sum(len(v) for v in c["streams"].values())
        if total >= 6:
            cb[i] = 0 if args.tier == "quick" else 1
        elif total >= 5 and args.tier == "quick":
            cb[i] = 0
        elif i >= 24 and args.tier == "quick":
            cb[i] = 0  # systematic part: all arrival permutations (free choices), default driver/db schedule
    with Explorer(f"checks.{PROP}", cases, workers=args.workers, seed=runner.seed()) as exp:
        stats, completed, levels = run_iterated(exp, bound, args.time_cap or (280 if args.tier == "quick" else 1500), cb, bound)
    runner.e1_report(rep, sys.modules[__name__], cases, stats, completed, levels, bound,
                     samples=[cases[2], cases[9], cases[19]],
                     extra={"trees": sorted({tree_str(c["tree"]) for c in cases})})
    rep.coverage["rule"] = (
        "catalogue of (combinator tree, token streams per port: antichains of tags of depth 1..3, parent/child mixes "
        "across ports, multi-digit components, missing partners) x ALL arrival permutations (free choices; port "
        "terminations interleaved freely for <= 4 tokens, at the end otherwise) x driver/db deviations up to the "
        "bound; oracle: emitted multiset == plain-python reference; distinct = distinct ordered event logs")
    rep.assumptions = [
        "tags carried by one port form an antichain (what a port carries in the engine)",
        "cartesian product: all inputs at the same tag depth, depth parameter 1 (the only value the translator uses)",
        "Cartesian{inner combinator} is never built by the engine; it is in the catalogue and recorded as a known finding",
    ]
    return rep.finish()


if __name__ == "__main__":
    sys.exit(main())
