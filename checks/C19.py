"""C19 -- concurrent recoveries share work and never deadlock (concurrent fail-stop faults x schedules x lock orders)."""
from __future__ import annotations

import itertools
import sys

from checks import _exec, _recov
from mc import runner

PROP = "C19"
worker_init = _recov.worker_init


def run_case(params, prefix):
    ex, res = _recov.run(params, prefix)
    base = "C19|" + _recov.base_key(params) + (f"|lock={params['lock_order']}" if params.get("lock_order") else "")
    fails = []
    run_ = res.get("run")
    if ex.hang:
        key = _recov.hang_key("C19", params, run_, base)
        fails.append((key, f"recoveries never terminate; pending {ex.pending[:8]}; failures {run_.failure_log if run_ else None}; "
                           f"executions {run_.exec_log if run_ else None}"))
    elif ex.error:
        fails.append((base + "|error", f"{ex.error[0]}: {ex.error[1]!r}"))
    else:
        counts, fexec = _recov.summarize(res)
        per_job = {}
        for j, _, _ in run_.failure_log:
            per_job[j] = per_job.get(j, 0) + 1
        limit = (params.get("fm") or {}).get("config", {}).get("max_retries", 1 << 30)
        if res.get("raised") and max(per_job.values(), default=0) >= limit:
            pass  # some job failed (injected + collateral failures) as often as the retry limit allows: aborting is right
        elif res.get("raised"):
            fails.append((_recov.raised_key(params, run_, base), f"run() raised {res['raised']}; failures {run_.failure_log}; executions {run_.exec_log}"))
        elif res.get("ret_content") != res["expected"]:
            fails.append((base + "|outputs", f"outputs {res.get('ret_content')} differ from the failure-free run {res['expected']}; "
                                             f"failures {run_.failure_log}; executions {run_.exec_log}"))
        else:
            # every producer of lost data re-executed at most once per loss (+ its own execute-phase failures)
            for j, n in counts.items():
                allowed = 1 + fexec.get(j, 0) + run_.loss_events.get(j, 0)
                if n > allowed:
                    refailed = sorted({x[0] for x in run_.failure_log if x[0] != j
                                       and sum(1 for y in run_.failure_log if y[0] == x[0]) > 1})
                    key = base + f"|producer-rerun-too-often|{j.rsplit('/', 1)[0]}"
                    late = [x for x in run_.failure_log if x[2] == "collateral:no-source" and x[0] != j]
                    if refailed:
                        # genuine (minor) defect recorded in known_findings.json: keyed by cause and program
                        key = (f"C19|producer-rerun-too-often|cause=consumer-fails-again-after-its-inputs-were-regenerated|"
                               f"prog={params['spec']['prog']}")
                    elif late:
                        # same root, other entry point: a consumer that had not started yet finds no source for its input
                        # (collateral failure) AFTER an earlier recovery regenerated it; its recovery rolls the producer back again
                        key = (f"C19|producer-rerun-too-often|cause=late-consumer-finds-no-source-after-the-producer-was-regenerated|"
                               f"prog={params['spec']['prog']}")
                    fails.append((key,
                                  f"{j} executed {n} times: 1 + {fexec.get(j, 0)} own failures + {run_.loss_events.get(j, 0)} "
                                  f"loss event(s) allow {allowed}; executions {run_.exec_log}; failures {run_.failure_log}"))
            bad = {n: s for n, s in res["statuses"].items() if s[0] != "COMPLETED" or not s[1]}
            if bad:
                fails.append((base + "|status", f"steps of the original workflow not COMPLETED: {bad}"))
        if res.get("pending_after_run"):
            key = base + "|pending"
            if res.get("raised") and run_ is not None and _recov.producer_failed_during_recovery(params["spec"], run_):
                key = f"C16|pending|cause=producer-fails-while-being-re-executed-for-concurrent-recoveries|prog={params['spec']['prog']}"
            fails.append((key, f"tasks pending at quiescence (a recovery left waiting): {res['pending_after_run'][:6]}"))
    return _recov.make_outcome(ex, res, fails)


def _fs(job, lose, phase="execute"):
    return {"job": job, "phase": phase, "kind": "failstop", "count": 1, "lose": lose}


def cases_for(tier):
    quick = tier == "quick"
    out = []
    # A -> scatter B_i -> gather -> C over files: k of the B_i fail fail-stop in the same run, A's output is lost
    for n in ([2, 3] if quick else [2, 3, 4, 6]):
        spec = {"prog": "filescatter", "n": n}
        for k in range(2, n + 1):
            if not quick or k == n or n == 2:
                for failing in itertools.combinations(range(n), k):
                    if len(failing) != k or (n > 3 and failing != tuple(range(k))):
                        continue
                    plan = [_fs(f"/B/0.{i}", {"original": ["/A/0"]}) for i in failing]
                    b = 1 if quick else (3 if n <= 2 else (2 if n <= 3 else 1))
                    for lo in (None, "reverse"):
                        c = {"spec": spec, "plan": plan, "fm": _recov.FM(12), "idle_only": True, "bound": b}
                        if lo:
                            c["lock_order"] = lo
                        out.append(c)
        # one of them under the full environment model
        if n == 2:
            out.append({"spec": spec, "plan": [_fs("/B/0.0", {"original": ["/A/0"]}), _fs("/B/0.1", {"original": ["/A/0"]})],
                        "fm": _recov.FM(12), "bound": 1 if quick else 2})
    # diamond A -> {B, C} -> D : B and C fail concurrently, A's output lost
    spec = {"prog": "filediamond"}
    for lose in ({"original": ["/A/0"]}, "own"):
        for lo in (None, "reverse"):
            c = {"spec": spec, "plan": [_fs("/B/0", lose), _fs("/C/0", lose)], "fm": _recov.FM(12), "idle_only": True,
                 "bound": 1 if quick else 3}
            if lo:
                c["lock_order"] = lo
            out.append(c)
    out.append({"spec": spec, "plan": [_fs("/B/0", {"original": ["/A/0"]}), _fs("/C/0", {"original": ["/A/0"]})], "fm": _recov.FM(12),
                "bound": 1 if quick else 2})
    # both consumers fail TWICE, each failure losing the producer's current output: the second round of recoveries meets
    # requests that an earlier recovery workflow already served
    for lose in ({"outputs": ["/A/0"]}, {"original": ["/A/0"]}):
        for fm in (4, 12):
            out.append({"spec": spec, "plan": [dict(_fs("/B/0", lose), count=2), dict(_fs("/C/0", lose), count=2)], "fm": _recov.FM(fm),
                        "idle_only": True, "bound": 1 if quick else 2})
    for fm in (4, 12):
        out.append({"spec": {"prog": "filescatter", "n": 2},
                    "plan": [dict(_fs("/B/0.0", {"outputs": ["/A/0"]}), count=2), dict(_fs("/B/0.1", {"outputs": ["/A/0"]}), count=2)],
                    "fm": _recov.FM(fm), "idle_only": True, "bound": 1 if quick else 2})
    # two consumers of a gathered list fail together after one loss of everything upstream: the second recovery waits for
    # SEVERAL tokens of one port that the first recovery regenerates
    for n in ((2,) if quick else (2, 3)):
        ups = ["/A/0"] + [f"/B/0.{i}" for i in range(n)]
        out.append({"spec": {"prog": "filescatter2c", "n": n},
                    "plan": [_fs("/C1/0", {"original": ups}), _fs("/C2/0", {"original": ups})], "fm": _recov.FM(12),
                    "idle_only": True, "bound": 1 if quick else 2})
    # THREE consumers of one lost output fail together: while one recovery holds the producer's lock, two more queue for it
    for lose in ({"original": ["/A/0"]}, {"outputs": ["/A/0"]}):
        out.append({"spec": {"prog": "filefan", "k": 3}, "plan": [_fs(f"/B{i}/0", lose) for i in range(3)], "fm": _recov.FM(12),
                    "idle_only": True, "bound": 1 if quick else 2})
        # ... and at the same instant (the failing jobs wait for each other at a barrier, then fail back to back)
        out.append({"spec": {"prog": "filefan", "k": 3}, "plan": [dict(_fs(f"/B{i}/0", lose), barrier=True) for i in range(3)],
                    "fm": _recov.FM(12), "idle_only": True, "bound": 1 if quick else 2})
    # three recoveries with DIFFERENT ancestor sets: E needs A only, C1 and C2 need A and every B_i; all three fail at the same
    # instant after one loss of everything upstream
    for n in ((2,) if quick else (2, 3)):
        ups = ["/A/0"] + [f"/B/0.{i}" for i in range(n)]
        out.append({"spec": {"prog": "filescatter2c", "n": n, "e": True},
                    "plan": [dict(_fs(j, {"original": ups}), barrier=True) for j in ("/E/0", "/C1/0", "/C2/0")], "fm": _recov.FM(12),
                    "idle_only": True, "bound": 1 if quick else 2})
    # transfer-phase variants (the failing jobs have not started their commands yet)
    out.append({"spec": spec, "plan": [_fs("/B/0", {"original": ["/A/0"]}, "transfer"), _fs("/C/0", {"original": ["/A/0"]}, "transfer")], "fm": _recov.FM(12),
                "idle_only": True, "bound": 1 if quick else 3})
    # scattered jobs after a producer, scalar payloads (nothing to lose: recoveries still run concurrently)
    out.append({"spec": {"prog": "seq_job_scatterjobs", "n": 2},
                "plan": [{"job": "/B/0.0", "phase": "execute", "kind": "soft", "count": 1},
                         {"job": "/B/0.1", "phase": "execute", "kind": "soft", "count": 1}], "fm": _recov.FM(12), "idle_only": True,
                "bound": 2 if quick else 3})
    return out


def main(argv=None):
    args = runner.tier_args(argv)
    worker_init()
    if args.replay:
        return _exec.replay_main(PROP, sys.modules[__name__], args.replay)
    cases = cases_for(args.tier)
    cb = {i: c["bound"] for i, c in enumerate(cases)}
    return _exec.generic_main(
        PROP, sys.modules[__name__], "fault_enumeration", cases, max(cb.values()), cb,
        rule="A->scatter(n) B_i->gather->C and diamond A->{B,C}->D over files: 2..n of the B_i (or B and C) fail fail-stop in the "
             "SAME run and delete A's output (or every job directory, or only their own), so their recoveries run concurrently and "
             "need the same producer; x both lock orders of RollbackFailureManager._recover (sorted(key=id) shadowed) x every "
             "schedule within the per-case deviation bound; oracle: all recoveries terminate (no hang, nothing pending), outputs "
             "equal the failure-free run, every job runs at most 1 + own failures + number of times its data was lost",
        assumptions=_exec.ENV_ASSUMPTIONS + ["max_retries 12 (never the limiting factor)",
                                              "loss event of a job = a fault deleted an existing output directory of that job"],
        args=args, time_cap=280 if args.tier == "quick" else 1500)


if __name__ == "__main__":
    sys.exit(main())
