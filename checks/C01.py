"""C01 -- scatter then gather returns the original list in its original order.

(a) direct driver: real ScatterStep chain (+ element-wise PyTransformer) produces the tokens; the
    driver delivers them to the real GatherStep chain in every enumerated arrival order.
(b) through StreamFlowExecutor with one gated job per element (see checks/_exec.py).
"""
from __future__ import annotations

import itertools
import sys

from mc import runner, wfkit
from mc.explore import Explorer, run_iterated, Outcome
from mc.loop import execute
from mc.stepdrv import Stream, deliver_all

from streamflow.core.workflow import Status, Workflow
from streamflow.workflow.step import GatherStep, ScatterStep
from streamflow.workflow.token import ListToken, TerminationToken

PROP = "C01"


def worker_init():
    wfkit.quiet_logging()
    wfkit.patch_port_put()


# ---------------------------------------------------------------------------------------------
# values
# ---------------------------------------------------------------------------------------------

def make_value(shape, elem):
    """shape: nested list of ints describing sizes, e.g. 3 -> [e0,e1,e2]; [2,0,3] -> [[..],[..],[..]]"""
    counter = itertools.count()

    def leaf():
        i = next(counter)
        if elem == "scalar":
            return i
        if elem == "list":
            return [i, i + 100]
        if elem == "object":
            return {"a": i, "b": [i]}
        if elem == "str":
            return f"v{i}"
        raise ValueError(elem)

    def build(s):
        if isinstance(s, int):
            return [leaf() for _ in range(s)]
        return [build(x) for x in s]

    return build(shape)


def depth_of(shape):
    return 1 if isinstance(shape, int) else 1 + max((depth_of(x) for x in shape), default=0) if shape else 1


def shape_depth(shape):
    if isinstance(shape, int):
        return 1
    return 1 + max([shape_depth(x) for x in shape] or [1])


async def _main(loop, params, result):
    shape, elem, tag = params["shape"], params["elem"], params["tag"]
    D = shape_depth(shape)
    value = make_value(shape, elem)
    ctx = wfkit.make_context()
    loop.mute = True
    wf = Workflow(ctx, config={}, name="w")
    in_port = wf.create_port(name="in")
    scatters, cur = [], in_port
    for k in range(D):
        s = wf.create_step(ScatterStep, name=f"/s{k}-scatter")
        s.add_input_port("x", cur)
        cur = wf.create_port(name=f"sc{k}")
        s.add_output_port("x", cur)
        scatters.append(s)
    tr = wf.create_step(wfkit.PyTransformer, name="/f", func="inc")
    tr.add_input_port("x", cur)
    elems_port = wf.create_port(name="elems")
    tr.add_output_port("x", elems_port)
    # gather chain (innermost first); each has its own size port fed by the driver
    gathers, gsize = [], []
    gin = wf.create_port(name="gin")
    cur = gin
    flat = bool(params.get("flat"))
    if flat:
        # ONE gather of depth D collecting all leaves into a flat list (what the CWL translator builds for
        # scatterMethod flat_crossproduct); its size token carries the total number of leaves
        sp = wf.create_port(name="gsizeflat")
        g = wf.create_step(GatherStep, name="/gflat-gather", size_port=sp, depth=D)
        g.add_input_port("x", cur)
        cur = wf.create_port(name="gflatout")
        g.add_output_port("x", cur)
        gathers.append(g)
    else:
        for k in reversed(range(D)):
            sp = wf.create_port(name=f"gsize{k}")
            g = wf.create_step(GatherStep, name=f"/g{k}-gather", size_port=sp, depth=1)
            g.add_input_port("x", cur)
            cur = wf.create_port(name=f"g{k}out")
            g.add_output_port("x", cur)
            gathers.append(g)
            gsize.append((k, sp))
    out_port = cur
    await wfkit.save_workflow(wf)
    # phase 1: produce the scattered tokens with the real code (default schedule, no choices)
    tok = wfkit.tok_from_value(value, tag=tag)

    def retag(t, tg):
        t.tag = tg
        if isinstance(t.value, list):
            for x in t.value:
                if hasattr(x, "tag"):
                    retag(x, tg)
        elif isinstance(t.value, dict):
            for x in t.value.values():
                if hasattr(x, "tag"):
                    retag(x, tg)

    retag(tok, tag)
    await tok.save(ctx.database, port_id=in_port.persistent_id)
    in_port.put(tok)
    in_port.put(TerminationToken())
    import asyncio

    await asyncio.gather(*(asyncio.create_task(s.run()) for s in (*scatters, tr)))
    # phase 2: gathers run; driver delivers
    streams = [Stream("elems", gin, [t for t in elems_port.token_list if not isinstance(t, TerminationToken)],
                      fifo=False, final=TerminationToken())]
    if flat:
        from streamflow.core.workflow import Token as _Token

        leaves = [t for t in elems_port.token_list if not isinstance(t, TerminationToken)]
        streams.append(Stream("sizeflat", sp, [_Token(len(leaves), tag=tag, recoverable=True)], fifo=True,
                              final=TerminationToken()))
    for k, sp in gsize:
        src = scatters[k].get_size_port()
        streams.append(Stream(f"size{k}", sp, [t for t in src.token_list if not isinstance(t, TerminationToken)],
                              fifo=True, final=TerminationToken()))
    tasks = [asyncio.create_task(g.run(), name=g.name) for g in gathers]
    loop.mute = False
    order = params.get("order")
    made = await deliver_all(loop, streams, order=[tuple(o) for o in order] if order else None)
    await asyncio.gather(*tasks)
    loop.mute = True
    result["made"] = made
    result["out"] = wfkit.port_dump(out_port)
    result["statuses"] = [g.status.name for g in gathers]
    exp = wfkit.PYFUNCS["inc"](value)
    if flat:
        def _flatten(v, d):
            return v if d == 0 else [y for x in v for y in _flatten(x, d - 1)]

        exp = _flatten(exp, D - 1)
    result["expected"] = wfkit._freeze(exp)
    await ctx.close()


def judge(params, ex, result):
    fails = []
    base = f"C01|direct|shape={params['shape']}|elem={params['elem']}|tag={params['tag']}" + ("|flat" if params.get("flat") else "")
    if ex.hang:
        fails.append((base + "|hang", f"gather never terminates; pending={ex.pending} deliveries={result.get('made')}"))
        return fails
    if ex.error:
        fails.append((base + "|error", f"{ex.error[0]}: {ex.error[1]!r} deliveries={result.get('made')}"))
        return fails
    out = result["out"]
    exp = [("ListToken", params["tag"], result["expected"]), ("TerminationToken", "0", ("TERM", "COMPLETED"))]
    if out != exp:
        fails.append((base + "|value", f"gather output {out} != expected {exp}; deliveries={result['made']}"))
    return fails


def run_case(params, prefix):
    if params["kind"] == "exec":
        from checks import _exec

        return _exec.run_case_c01(params, prefix)
    result = {}
    ex = execute(lambda loop: _main(loop, params, result), prefix)
    fails = judge(params, ex, result)
    return Outcome(ex.trace, fails, obs=str(result.get("out")), steps=ex.steps, states=ex.states,
                   signature=ex.signature, info=result.get("made"))


# ---------------------------------------------------------------------------------------------
# cases
# ---------------------------------------------------------------------------------------------

def transposition_orders(n, tag):
    """identity, reverse, every single transposition, every rotation x every position of the size token"""
    ids = list(range(n))
    perms = {tuple(ids), tuple(reversed(ids))}
    for i in range(n):
        for j in range(i + 1, n):
            p = ids[:]
            p[i], p[j] = p[j], p[i]
            perms.add(tuple(p))
    for r in range(1, n):
        perms.add(tuple(ids[r:] + ids[:r]))
    orders = []
    for p in sorted(perms):
        for pos in range(n + 1):
            seq = [(0, f"{tag}.{i}") for i in p]
            seq.insert(pos, (1, tag))
            # size termination right after the size token or at the very end
            for term_late in (False, True):
                s2 = list(seq)
                if term_late:
                    s2 += [(0, "TERM"), (1, "TERM")]
                else:
                    s2.insert(s2.index((1, tag)) + 1, (1, "TERM"))
                    s2.append((0, "TERM"))
                orders.append(s2)
    return orders


def cases_for(tier):
    cases = []
    small = [0, 1, 2, 3] if tier == "quick" else [0, 1, 2, 3, 4]
    for n in small:
        for elem in ("scalar", "list", "object"):
            for tag in ("0", "0.3", "0.12"):
                if tier == "quick" and elem != "scalar" and tag != "0":
                    continue
                cases.append({"kind": "direct", "shape": n, "elem": elem, "tag": tag})
    big = [11] if tier == "quick" else [10, 11, 12, 15]
    for n in big:
        for tag in (("0",) if tier == "quick" else ("0", "0.12")):
            orders = transposition_orders(n, tag)
            if tier == "quick":
                orders = orders[::7]
            for o in orders:
                cases.append({"kind": "direct", "shape": n, "elem": "scalar", "tag": tag, "order": o, "bound": 0})
    nested = [[2, 2], [1, 0, 2]] if tier == "quick" else [[2, 2], [2, 3], [1, 0, 2], [[2, 1], [1]], [[1, 1], [2]], [0, 0], [11, 2],
                                                                   [2, 11]]
    for sh in nested:
        if 11 in sh:
            continue  # two-digit inner indices: only through the flat gather with explicit orders below
        cases.append({"kind": "direct", "shape": sh, "elem": "scalar", "tag": "0", "bound": 0 if tier == "quick" else 1})
    # nested scatter collected by ONE gather of depth 2/3 (flat cross product)
    flat = [[2, 2], [1, 0, 2], [11, 2]] if tier == "quick" else [[2, 2], [2, 3], [3, 2], [1, 0, 2], [0, 0], [[2, 1], [1]], [[1, 1], [2]], [11, 2]]
    for sh in flat:
        if sh == [11, 2]:
            # 13 leaves with a two-digit inner index: explicit arrival orders (identity, reverse, rotations, adjacent swaps)
            # x position of the size token, instead of all 13! orders
            tags = [f"0.{i}.{j}" for i, n in enumerate(sh) for j in range(n)]
            perms = {tuple(tags), tuple(reversed(tags))}
            for r in range(1, len(tags)):
                perms.add(tuple(tags[r:] + tags[:r]))
            for i in range(len(tags) - 1):
                p = tags[:]
                p[i], p[i + 1] = p[i + 1], p[i]
                perms.add(tuple(p))
            perms = sorted(perms)
            if tier == "quick":
                perms = perms[::3]
            for p in perms:
                for pos in (0, len(tags) // 2, len(tags)):
                    seq = [(0, t) for t in p]
                    seq.insert(pos, (1, "0"))
                    seq += [(0, "TERM"), (1, "TERM")]
                    cases.append({"kind": "direct", "shape": sh, "elem": "scalar", "tag": "0", "flat": True, "order": seq, "bound": 0})
            continue
        cases.append({"kind": "direct", "shape": sh, "elem": "scalar", "tag": "0", "flat": True,
                      "bound": 0 if tier == "quick" else 1})
    return cases


def main(argv=None):
    args = runner.tier_args(argv)
    worker_init()
    if args.replay:
        import json

        payload = json.load(open(args.replay))["replay"]
        out = run_case(payload["case"], runner.unrle(payload["choices"]))
        for k, m in out.failures:
            print(f"VIOLATION property={PROP} replay={args.replay}\n  {k}: {m}")
        return 1 if out.failures else 0
    rep = runner.Report(PROP, args.tier, "model_checking", runner.seed())
    cases = cases_for(args.tier)
    try:
        from checks import _exec

        cases += _exec.cases_c01(args.tier)
    except ImportError:
        pass
    bound = 1 if args.tier == "quick" else 2
    cb = {i: c["bound"] for i, c in enumerate(cases) if "bound" in c}
    with Explorer(f"checks.{PROP}", cases, workers=args.workers, seed=runner.seed()) as exp:
        stats, completed, levels = run_iterated(exp, bound, args.time_cap or (240 if args.tier == "quick" else 1500), cb, bound)
    runner.e1_report(rep, sys.modules[__name__], cases, stats, completed, levels, bound,
                     samples=[cases[0], cases[len(cases) // 2], cases[-1]])
    rep.coverage["rule"] = (
        "every interleaving (free choices) of element tokens, size tokens (FIFO per size port) and port "
        "terminations delivered to the real GatherStep chain, x driver-gate/db-gate deviations up to the bound; "
        "distinct = distinct ordered event logs (Port.put + gate completions)")
    rep.assumptions = [
        "environment model of DESIGN.md 2.1 (FIFO ready queue, per-connection FIFO SQLite replies, free gates)",
        "size tokens of one size port arrive in emission order (the port is a shared FIFO in the engine)",
        "lists of length > 15 and nesting depth > 3 not explored; n >= 10 only for <= 1 transposition / rotations",
    ]
    return rep.finish()


if __name__ == "__main__":
    sys.exit(main())
