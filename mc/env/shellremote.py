"""ShellRemoteConnector: a NON-local location whose commands run through /bin/sh on this machine.

It overrides nothing of ``BaseConnector``'s ``run`` / ``copy_*`` / ``get_shell`` / stream methods: the real
persistent-shell, direct-exec fallback, tar-stream and ``RemoteStreamFlowPath`` code is what executes.  Needs real
subprocesses, hence the standard event loop."""
from __future__ import annotations

import shlex

from streamflow.core.scheduling import AvailableLocation
from streamflow.deployment.connector import connector_classes
from streamflow.deployment.connector.base import BaseConnector


class ShellRemoteConnector(BaseConnector):
    def __init__(self, deployment_name: str, config_dir: str, transferBufferSize: int = 2 ** 16, locations: int = 1):
        super().__init__(deployment_name, config_dir, transferBufferSize)
        self.nlocations = locations

    async def deploy(self, external: bool) -> None:
        pass

    async def get_available_locations(self, service=None):
        return {f"sh{i}": AvailableLocation(name=f"sh{i}", deployment=self.deployment_name, service=service,
                                             hostname="localhost", local=False, slots=8)
                for i in range(self.nlocations)}

    # A remote connector hands the stream command LINE to the remote side's shell (sshd runs it through the user's
    # shell); BaseConnector's own get_stream_* exec the split words without a shell, which no remote deployment does.
    async def get_stream_reader(self, command, location):
        return await super().get_stream_reader(["sh", "-c", shlex.quote(" ".join(command))], location)

    async def get_stream_writer(self, command, location):
        return await super().get_stream_writer(["sh", "-c", shlex.quote(" ".join(command))], location)

    @classmethod
    def get_schema(cls) -> str:
        return "{}"


connector_classes["shellremote"] = ShellRemoteConnector
