"""ShellRemoteConnector: a NON-local location whose commands run through /bin/sh on this machine.

It overrides nothing of ``BaseConnector``'s ``run`` / ``copy_*`` / ``get_shell`` / stream methods: the real
persistent-shell, direct-exec fallback, tar-stream and ``RemoteStreamFlowPath`` code is what executes.  Needs real
subprocesses, hence the standard event loop."""
from __future__ import annotations

from streamflow.core.scheduling import AvailableLocation
from streamflow.deployment.connector import connector_classes
from streamflow.deployment.connector.base import BaseConnector


class ShellRemoteConnector(BaseConnector):
    def __init__(self, deployment_name: str, config_dir: str, transferBufferSize: int = 2 ** 16, locations: int = 1):
        super().__init__(deployment_name, config_dir, transferBufferSize)
        self.nlocations = locations

    async def deploy(self, external: bool) -> None:
        pass

    async def get_available_locations(self, service=None):
        return {f"sh{i}": AvailableLocation(name=f"sh{i}", deployment=self.deployment_name, service=service,
                                             hostname="localhost", local=False, slots=8)
                for i in range(self.nlocations)}

    @classmethod
    def get_schema(cls) -> str:
        return "{}"


connector_classes["shellremote"] = ShellRemoteConnector
