"""In-process fake connectors for scheduler / deployment-manager / queue-manager harnesses."""
from __future__ import annotations

import asyncio
import re
from collections.abc import MutableMapping, MutableSequence

from streamflow.core.deployment import Connector, ExecutionLocation
from streamflow.core.scheduling import AvailableLocation, Hardware, Storage
from streamflow.deployment.wrapper import ConnectorWrapper


async def gate(label, prio=0):
    loop = asyncio.get_running_loop()
    g = getattr(loop, "gate", None)
    if g is None:
        await asyncio.sleep(0)
    else:
        await g(label, None, prio)


LOG: list = []  # shared call log (reset by harnesses per execution)


def reset_log():
    LOG.clear()
    FakeConnector.instances.clear()


def log_event(ev):
    loop = asyncio.get_event_loop()
    lg = getattr(loop, "log", None)
    if lg is not None:
        lg(ev)


class FakeConnector(Connector):
    """Configurable locations; records a call log; optional gates on every environment interaction.

    ``locations``: {name: {"cores":..,"memory":..,"storage":{mount: size}, "slots": n|None, "hardware": bool}}
    ``usage``: bytes the storage-usage query reports (per call), default 0.
    """

    instances: list["FakeConnector"] = []

    def __init__(self, deployment_name: str, config_dir: str = "/", transferBufferSize: int = 65536,
                 locations: MutableMapping | None = None, gated: bool = False, usage: int = 0,
                 fail_deploy: bool = False, calllog: list | None = None, **kw):
        super().__init__(deployment_name, config_dir, transferBufferSize)
        self.locs_cfg = locations or {"loc0": {"slots": 1}}
        self.gated = gated
        self.usage = usage
        self.fail_deploy = fail_deploy
        self.calls = calllog if calllog is not None else LOG
        self.deployed = False
        self.extra = kw
        FakeConnector.instances.append(self)
        self.instance_id = len(FakeConnector.instances)

    # ---- locations ------------------------------------------------------------------------------
    def make_location(self, name, cfg, service=None) -> AvailableLocation:
        hw = None
        if cfg.get("hardware", "cores" in cfg or "storage" in cfg):
            storage = {m: Storage(mount_point=m, size=float(s)) for m, s in cfg.get("storage", {"/": 1024.0}).items()}
            hw = Hardware(cores=float(cfg.get("cores", 1)), memory=float(cfg.get("memory", 1024)), storage=storage)
        return AvailableLocation(name=name, deployment=self.deployment_name, hostname=name, service=service,
                                 slots=cfg.get("slots"), hardware=hw)

    async def get_available_locations(self, service: str | None = None):
        self.calls.append(("get_available_locations", self.deployment_name, service))
        if self.gated:
            await gate(f"locs:{self.deployment_name}")
        return {n: self.make_location(n, c, service) for n, c in self.locs_cfg.items()}

    # ---- commands the scheduler/data layer emits ------------------------------------------------------
    async def run(self, location, command, environment=None, workdir=None, stdin=None, stdout=None, stderr=None,
                  capture_output=False, timeout=None, job_name=None):
        cmd = " ".join(command)
        self.calls.append(("run", self.deployment_name, getattr(location, "name", None), cmd, self.instance_id))
        if self.gated:
            await gate(f"run:{self.deployment_name}:{cmd[:16]}")
        m = re.match(r'test -e "(.*?)" && readlink -f "(.*?)"', cmd) or re.match(r"test -e '?(.*?)'? && readlink -f '?(.*?)'?$", cmd)
        if m:
            return (m.group(1), 0) if capture_output else None
        if cmd.startswith("find -L"):
            return (str(self.usage), 0) if capture_output else None
        if capture_output:
            return ("", 0)
        return None

    async def deploy(self, external: bool) -> None:
        self.calls.append(("deploy_start", self.deployment_name, self.instance_id))
        log_event(("deploy_start", self.deployment_name))
        await gate(f"deploy:{self.deployment_name}#{self.instance_id}")
        if self.fail_deploy:
            self.calls.append(("deploy_raise", self.deployment_name, self.instance_id))
            raise RuntimeError(f"injected deploy failure {self.deployment_name}")
        self.deployed = True
        self.calls.append(("deploy_end", self.deployment_name, self.instance_id))
        log_event(("deploy_end", self.deployment_name))

    async def undeploy(self, external: bool) -> None:
        self.calls.append(("undeploy_start", self.deployment_name, self.instance_id))
        log_event(("undeploy_start", self.deployment_name))
        await gate(f"undeploy:{self.deployment_name}#{self.instance_id}")
        self.deployed = False
        self.calls.append(("undeploy_end", self.deployment_name, self.instance_id))
        log_event(("undeploy_end", self.deployment_name))

    async def copy_local_to_remote(self, src, dst, locations, read_only=False):
        self.calls.append(("copy_local_to_remote", src, dst))

    async def copy_remote_to_local(self, src, dst, location, read_only=False):
        self.calls.append(("copy_remote_to_local", src, dst))

    async def copy_remote_to_remote(self, src, dst, locations, source_location, source_connector=None, read_only=False):
        self.calls.append(("copy_remote_to_remote", src, dst))

    async def get_shell(self, command, location):
        raise NotImplementedError

    async def get_stream_reader(self, command, location):
        raise NotImplementedError

    async def get_stream_writer(self, command, location):
        raise NotImplementedError

    @classmethod
    def get_schema(cls) -> str:
        return "{}"


class FakeWrapper(ConnectorWrapper):
    """A ConnectorWrapper whose locations are stacked on the inner connector's locations."""

    def __init__(self, deployment_name: str, config_dir: str = "/", connector: Connector = None, service=None,
                 transferBufferSize: int = 65536, locations: MutableMapping | None = None, gated=False,
                 fail_deploy=False, calllog: list | None = None, binds: MutableMapping | None = None, **kw):
        super().__init__(deployment_name, config_dir, connector, service, transferBufferSize)
        self.locs_cfg = locations or {"w0": {"cores": 1, "memory": 1024, "storage": {"/": 1024.0}}}
        self.gated = gated
        self.fail_deploy = fail_deploy
        self.calls = calllog if calllog is not None else LOG
        self.binds = binds or {}
        FakeConnector.instances.append(self)
        self.instance_id = len(FakeConnector.instances)
        self.deployed = False

    async def get_available_locations(self, service: str | None = None):
        self.calls.append(("get_available_locations", self.deployment_name, service))
        if self.gated:
            await gate(f"locs:{self.deployment_name}")
        inner = await self.connector.get_available_locations(service=self.service)
        out = {}
        inner_list = list(inner.values())
        for i, (n, c) in enumerate(self.locs_cfg.items()):
            storage = {m: Storage(mount_point=m, size=float(s), bind=self.binds.get(m)) for m, s in c.get("storage", {"/": 1024.0}).items()}
            hw = Hardware(cores=float(c.get("cores", 1)), memory=float(c.get("memory", 1024)), storage=storage)
            out[n] = AvailableLocation(name=n, deployment=self.deployment_name, hostname=n, service=service,
                                       slots=c.get("slots"), hardware=hw if c.get("hardware", True) else None,
                                       stacked=True, wraps=inner_list[i % len(inner_list)])
        return out

    async def deploy(self, external: bool) -> None:
        self.calls.append(("deploy_start", self.deployment_name, self.instance_id))
        log_event(("deploy_start", self.deployment_name))
        await gate(f"deploy:{self.deployment_name}#{self.instance_id}")
        if self.fail_deploy:
            self.calls.append(("deploy_raise", self.deployment_name, self.instance_id))
            raise RuntimeError(f"injected deploy failure {self.deployment_name}")
        self.deployed = True
        self.calls.append(("deploy_end", self.deployment_name, self.instance_id))
        log_event(("deploy_end", self.deployment_name))

    async def undeploy(self, external: bool) -> None:
        self.calls.append(("undeploy_start", self.deployment_name, self.instance_id))
        log_event(("undeploy_start", self.deployment_name))
        await gate(f"undeploy:{self.deployment_name}#{self.instance_id}")
        self.deployed = False
        self.calls.append(("undeploy_end", self.deployment_name, self.instance_id))
        log_event(("undeploy_end", self.deployment_name))

    @classmethod
    def get_schema(cls) -> str:
        return "{}"


class FakeDeploymentManager:
    """Minimal deployment manager for scheduler harnesses: name -> connector."""

    def __init__(self, connectors: MutableMapping[str, Connector]):
        self.connectors = connectors

    def get_connector(self, name):
        return self.connectors.get(name)


class FakeDataManager:
    def get_data_locations(self, path, deployment=None, location_name=None, data_type=None):
        return []
