"""In-loop replacement for the subset of ``aiosqlite`` that ``SqliteDatabase`` uses.

Every statement is executed synchronously on a plain ``sqlite3`` connection (so SQL effects happen
in *request* order, exactly as aiosqlite's single worker thread serves its queue) and the reply is
delivered through a gate on the FIFO channel ``db:<n>`` of the running ``VLoop``: only the oldest
outstanding reply of a connection may complete next, but it may complete at any scheduling step.
On a standard event loop the gate degenerates to ``await asyncio.sleep(0)``.
"""
from __future__ import annotations

import asyncio
import itertools
import sqlite3

Row = sqlite3.Row
_conn_seq = itertools.count()
#: every open shim connection of the current process (harnesses read tables through them)
connections: list["Connection"] = []


async def _gate(channel, label):
    loop = asyncio.get_running_loop()
    g = getattr(loop, "gate", None)
    if g is None:
        await asyncio.sleep(0)
    else:
        await g(label, channel)


def _label(sql):
    w = sql.split(None, 4)
    if not w:
        return "db:?"
    k = w[0].upper()
    if k == "INSERT":
        # INSERT [OR IGNORE] INTO table(...)
        t = w[4] if len(w) > 4 and w[1].upper() == "OR" else (w[2] if len(w) > 2 else "")
        return "db:INSERT " + t.split("(")[0]
    if k == "UPDATE":
        return "db:UPDATE " + (w[1] if len(w) > 1 else "")
    if k == "SELECT":
        i = sql.upper().find(" FROM ")
        return "db:SELECT " + (sql[i + 6:].split()[0] if i >= 0 else "")
    return "db:" + k


class _Result:
    """Awaitable *and* async context manager (like aiosqlite.context.Result)."""

    __slots__ = ("_coro", "_obj")

    def __init__(self, coro):
        self._coro = coro
        self._obj = None

    def __await__(self):
        return self._coro.__await__()

    async def __aenter__(self):
        self._obj = await self._coro
        return self._obj

    async def __aexit__(self, et, ev, tb):
        await self._obj.close()


class Cursor:
    def __init__(self, conn: "Connection", cur: sqlite3.Cursor):
        self._conn = conn
        self._cur = cur

    async def execute(self, sql, parameters=()):
        self._conn.statements += 1
        self._cur.execute(sql, parameters)
        await _gate(self._conn.channel, _label(sql))
        return self

    async def executemany(self, sql, parameters):
        self._conn.statements += 1
        self._cur.executemany(sql, list(parameters))
        await _gate(self._conn.channel, _label(sql))
        return self

    async def executescript(self, script):
        self._cur.executescript(script)
        await _gate(self._conn.channel, "db:SCRIPT")
        return self

    async def fetchone(self):
        r = self._cur.fetchone()
        await _gate(self._conn.channel, "db:fetch")
        return r

    async def fetchall(self):
        r = self._cur.fetchall()
        await _gate(self._conn.channel, "db:fetch")
        return r

    async def fetchmany(self, size=None):
        r = self._cur.fetchmany(size) if size else self._cur.fetchmany()
        await _gate(self._conn.channel, "db:fetch")
        return r

    def __aiter__(self):
        return self

    async def __anext__(self):
        r = self._cur.fetchone()
        if r is None:
            raise StopAsyncIteration
        return r

    @property
    def lastrowid(self):
        return self._cur.lastrowid

    @property
    def rowcount(self):
        return self._cur.rowcount

    @property
    def description(self):
        return self._cur.description

    async def close(self):
        # a bare yield: aiosqlite makes a round trip here; no environment choice is attached to it
        self._cur.close()
        await asyncio.sleep(0)

    async def __aenter__(self):
        return self

    async def __aexit__(self, et, ev, tb):
        await self.close()


class Connection:
    def __init__(self, database, **kw):
        self.raw = sqlite3.connect(database, isolation_level=None, check_same_thread=False)
        self.channel = f"db{next(_conn_seq)}"
        self.statements = 0
        connections.append(self)

    @property
    def row_factory(self):
        return self.raw.row_factory

    @row_factory.setter
    def row_factory(self, f):
        self.raw.row_factory = f

    def cursor(self):
        async def _c():
            return Cursor(self, self.raw.cursor())

        return _Result(_c())

    def execute(self, sql, parameters=()):
        async def _e():
            return await Cursor(self, self.raw.cursor()).execute(sql, parameters)

        return _Result(_e())

    def executemany(self, sql, parameters):
        async def _e():
            return await Cursor(self, self.raw.cursor()).executemany(sql, parameters)

        return _Result(_e())

    def executescript(self, script):
        async def _e():
            return await Cursor(self, self.raw.cursor()).executescript(script)

        return _Result(_e())

    async def commit(self):
        await _gate(self.channel, "db:commit")

    async def close(self):
        await _gate(self.channel, "db:close")
        try:
            connections.remove(self)
        except ValueError:
            pass
        self.raw.close()

    async def __aenter__(self):
        return self

    async def __aexit__(self, et, ev, tb):
        await self.close()


def connect(database, **kw):
    async def _c():
        c = Connection(database, **kw)
        await _gate(c.channel, "db:connect")
        return c

    return _Result(_c())


def install():
    """Replace aiosqlite.connect / aiosqlite.Row (must run before SqliteDatabase opens)."""
    import aiosqlite

    if getattr(aiosqlite, "_verif_shim", False):
        return
    aiosqlite._real_connect = aiosqlite.connect
    aiosqlite.connect = connect
    aiosqlite.Row = Row
    aiosqlite.Connection = Connection
    aiosqlite._verif_shim = True


def uninstall():
    import aiosqlite

    if getattr(aiosqlite, "_verif_shim", False):
        aiosqlite.connect = aiosqlite._real_connect
        aiosqlite._verif_shim = False
