"""E3 -- bounded-exhaustive enumeration: a finite space of inputs split into chunks, each chunk checked
by ``module.check_chunk(chunk) -> ChunkResult`` in a worker pool."""
from __future__ import annotations

import importlib
import multiprocessing as mp
import os
import time
import traceback


class ChunkResult:
    __slots__ = ("evaluations", "distinct", "failures", "samples", "extra")

    def __init__(self, evaluations=0, distinct=(), failures=(), samples=(), extra=None):
        self.evaluations = evaluations
        self.distinct = set(distinct)  # hashable descriptors of distinct non-trivial cases / outcomes
        self.failures = list(failures)  # (key, msg, replay payload)
        self.samples = list(samples)
        self.extra = extra or {}


_MOD = None


def _init(module_name):
    global _MOD
    _MOD = importlib.import_module(module_name)
    if hasattr(_MOD, "worker_init"):
        _MOD.worker_init()


def _run(chunk):
    try:
        return _MOD.check_chunk(chunk), None
    except Exception:
        return None, traceback.format_exc()


def run_enum(rep, module_name, chunks, workers=None, time_cap=None, serial=False):
    """Runs all chunks; fills rep.coverage (evaluations, distinct_nontrivial, exhaustive) and failures."""
    workers = workers or min(16, os.cpu_count() or 1)
    t0 = time.time()
    total, distinct, samples, extra = 0, set(), [], {}
    done_chunks, complete = 0, True
    fail_seen = {}

    def absorb(res, err):
        nonlocal total, done_chunks
        done_chunks += 1
        if err:
            rep.internal_errors.append(err)
            return
        total += res.evaluations
        if len(distinct) < 2_000_000:
            distinct.update(res.distinct)
        for s in res.samples:
            if len(samples) < 6:
                samples.append(s)
        for k, v in res.extra.items():
            extra[k] = extra.get(k, 0) + v
        for key, msg, replay in res.failures:
            fail_seen.setdefault(key, (msg, replay))

    if serial or len(chunks) <= 1:
        _init(module_name)
        for c in chunks:
            absorb(*_run(c))
    else:
        ctx = mp.get_context("fork")
        from mc import runner as _runner

        _runner.scratch_dir()  # before the fork: one scratch directory per check, removed at exit
        with ctx.Pool(workers, initializer=_init, initargs=(module_name,)) as pool:
            for res, err in pool.imap_unordered(_run, chunks):
                absorb(res, err)
                if time_cap and time.time() - t0 > time_cap:
                    complete = done_chunks == len(chunks)
                    pool.terminate()
                    break
    for key, (msg, replay) in fail_seen.items():
        rep.fail(key, msg, replay)
    rep.coverage.update({
        "evaluations": total,
        "distinct_nontrivial": len(distinct),
        "chunks": len(chunks),
        "chunks_done": done_chunks,
        "exhaustive": bool(complete and done_chunks == len(chunks)),
    })
    rep.coverage.update(extra)
    rep.coverage.setdefault("samples", samples)
    return rep
