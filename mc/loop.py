"""E1 -- controlled asyncio event loop and choice controller.

``VLoop`` is a ``BaseEventLoop`` without a selector.  Ready callbacks keep CPython's FIFO order;
the *environment* (I/O completions = gates, timers) is owned by a ``Controller`` which is asked at
every scheduling step which enabled option to take.  Option 0 is always the default ("ready work
first, then the oldest I/O, then timers"); any other option is a *deviation*.
"""
from __future__ import annotations

import asyncio
import gc
import heapq
import itertools
import threading
import uuid
import zlib
from asyncio import events

MASK = (1 << 64) - 1


class Divergence(Exception):
    """Replayed prefix does not fit the choice menu of this execution (un-owned nondeterminism)."""


class StepLimit(Exception):
    pass


def h64(obj) -> int:
    b = repr(obj).encode()
    return (zlib.crc32(b) << 32 | zlib.adler32(b)) & MASK


class Controller:
    """Replays a prefix of choices, then takes option 0 everywhere; records (n, c, free).

    The prefix is sparse: ``(length, {position: nonzero choice})`` (a dense list is accepted too).
    """

    __slots__ = ("plen", "nz", "trace", "labels", "keep_labels")

    def __init__(self, prefix=(), keep_labels=False):
        if isinstance(prefix, tuple) and len(prefix) == 2 and isinstance(prefix[1], dict):
            self.plen, self.nz = prefix[0], prefix[1]
        else:
            prefix = list(prefix)
            self.plen = len(prefix)
            self.nz = {i: c for i, c in enumerate(prefix) if c}
        self.trace = []  # (n, c, free)
        self.labels = [] if keep_labels else None
        self.keep_labels = keep_labels

    def choose(self, n: int, label=None, free: bool = False) -> int:
        if n <= 1:
            return 0
        i = len(self.trace)
        c = 0
        if i < self.plen:
            c = self.nz.get(i, 0)
            if not (0 <= c < n):
                raise Divergence(f"choice #{i}={c} out of range {n} at {label() if callable(label) else label!r}")
        self.trace.append((n, c, free))
        if self.keep_labels:
            self.labels.append(label() if callable(label) else label)
        return c

    @property
    def choices(self):
        return [c for _, c, _ in self.trace]

    def deviations(self):
        return sum(1 for _, c, f in self.trace if c and not f)


class Gate:
    __slots__ = ("label", "channel", "fut", "seq", "prio")

    def __init__(self, label, channel, fut, seq, prio=0):
        self.label, self.channel, self.fut, self.seq, self.prio = label, channel, fut, seq, prio


class OrderedTaskSet(set):
    """set subclass with a deterministic iteration order (used for asyncio.wait results)."""

    def __init__(self, items=()):
        items = list(items)
        super().__init__(items)
        self._order = items

    def __iter__(self):
        return iter([t for t in self._order if set.__contains__(self, t)])

    def add(self, item):
        if not set.__contains__(self, item):
            self._order.append(item)
        super().add(item)

    def __reduce__(self):
        return (set, (list(self),))


_real_wait = asyncio.wait
_real_uuid4 = uuid.uuid4
_real_uuid1 = uuid.uuid1


def _perm_from_index(items, idx):
    """Lehmer decode: idx=0 is the identity permutation."""
    items = list(items)
    out = []
    for i in range(len(items), 0, -1):
        q, idx = divmod(idx, _fact(i - 1))
        out.append(items.pop(q))
    return out


def _fact(n):
    r = 1
    for i in range(2, n + 1):
        r *= i
    return r


class VLoop(asyncio.BaseEventLoop):
    def __init__(self, ctl: Controller, step_limit: int = 2_000_000, timers_optional: bool = True,
                 wait_perm: bool = True, idle_only: bool = False):
        super().__init__()
        self.ctl = ctl
        self._vtime = 0.0
        self.gates: list[Gate] = []
        self._gate_seq = itertools.count()
        self._task_seq = itertools.count()
        self._uuid_seq = itertools.count(1)
        self.steps = 0
        self.step_limit = step_limit
        self.timers_optional = timers_optional
        self.wait_perm = wait_perm
        # idle_only: the environment acts only when no callback is ready (I/O completions are delivered between
        # bursts of computation, never inside one) -- a sub-space of the full model that reaches deeper bounds
        self.idle_only = idle_only
        self.exceptions = []
        self.events = []  # ordered observable event log (harness + loop)
        self.state_acc = 0  # order-insensitive accumulator of events
        self.state_hashes = set()
        self.set_task_factory(self._vtask_factory)
        self.set_exception_handler(self._exc_handler)
        self.hang = None
        self.mute = False  # True: take option 0 everywhere without recording a choice (set-up phases)

    # ---- BaseEventLoop plumbing -------------------------------------------------------------
    def time(self):
        return self._vtime

    def _process_events(self, event_list):
        pass

    def _write_to_self(self):
        pass

    def _check_closed(self):
        # late call_soon from garbage-collected coroutines of a disposed loop must not raise
        pass

    def _vtask_factory(self, loop, coro, **kw):
        t = asyncio.Task(coro, loop=loop, **kw)
        t._vseq = next(self._task_seq)
        return t

    def _exc_handler(self, loop, context):
        self.exceptions.append(context)

    def run_in_executor(self, executor, func, *args):
        fut = self.create_future()
        try:
            res = func(*args)
        except BaseException as e:  # noqa
            g = self.gate("executor", None)
            g.add_done_callback(lambda _: fut.set_exception(e) if not fut.done() else None)
        else:
            g = self.gate("executor", None)
            g.add_done_callback(lambda _: fut.set_result(res) if not fut.done() else None)
        return fut

    # ---- environment ------------------------------------------------------------------------
    def gate(self, label, channel=None, prio=0) -> asyncio.Future:
        """A future completed by the environment.  channel=None: free gate; otherwise FIFO.

        Canonical option order: ready work, heads of FIFO channels (channel creation order), free gates
        by (prio, creation order), next timer.  Harness drivers use prio>0 ("act when the system under
        test can do nothing else")."""
        fut = self.create_future()
        self.gates.append(Gate(label, channel, fut, next(self._gate_seq), prio))
        return fut

    def log(self, ev):
        self.events.append(ev)
        self.state_acc = (self.state_acc + h64(ev)) & MASK

    def next_uuid(self):
        return uuid.UUID(int=(0x5F << 120) | next(self._uuid_seq))

    # ---- scheduling -------------------------------------------------------------------------
    def _menu(self):
        opts = []
        if self._ready:
            if self.idle_only:
                return [("r", None)]
            opts.append(("r", None))
        seen_channels = set()
        stale = False
        free = []
        for g in self.gates:
            if g.fut.done():
                stale = True
                continue
            if g.channel is not None:
                if g.channel in seen_channels:
                    continue
                seen_channels.add(g.channel)
                opts.append(("g", g))
            else:
                free.append(g)
        if free:
            if len(free) > 1:
                free.sort(key=lambda g: (g.prio, g.seq))
            opts.extend(("g", g) for g in free)
        if stale:
            self.gates = [g for g in self.gates if not g.fut.done()]
        # drop cancelled timers at the head
        while self._scheduled and self._scheduled[0]._cancelled:
            h = heapq.heappop(self._scheduled)
            h._scheduled = False
        if self._scheduled and (self.timers_optional or not opts):
            opts.append(("t", None))
        return opts

    def _prune_gates(self):
        self.gates = [g for g in self.gates if not g.fut.done()]

    def _do(self, opt):
        kind, g = opt
        if kind == "r":
            h = self._ready.popleft()
            if not h._cancelled:
                h._run()
        elif kind == "g":
            self.log(("gate", g.label))
            if not g.fut.done():
                g.fut.set_result(None)
            self._prune_gates()
        else:
            h = heapq.heappop(self._scheduled)
            h._scheduled = False
            if h._when > self._vtime:
                self._vtime = h._when
            self.log(("timer", round(h._when, 6)))
            if not h._cancelled:
                self._ready.append(h)

    def run_main(self, coro):
        """Run ``coro`` as main task to quiescence.  Returns the main task."""
        events._set_running_loop(self)
        self._thread_id = threading.get_ident()
        asyncio.wait = self._wait
        uuid.uuid4 = self.next_uuid
        uuid.uuid1 = self.next_uuid
        try:
            main = self.create_task(coro, name="__main__")
            ctl = self.ctl
            while True:
                # fast path: only ready work, nothing the environment could do
                if self._ready and not self.gates and not self._scheduled:
                    h = self._ready.popleft()
                    if not h._cancelled:
                        h._run()
                    self.steps += 1
                    if self.steps > self.step_limit:
                        raise StepLimit(self.steps)
                    continue
                opts = self._menu()
                if not opts:
                    break
                if len(opts) > 1 and not self.mute:
                    self.state_hashes.add(
                        (self.state_acc + h64(tuple(o[1].label if o[1] else o[0] for o in opts))) & MASK
                    )
                    c = ctl.choose(len(opts), lambda: [o[1].label if o[1] else o[0] for o in opts])
                else:
                    c = 0
                self._do(opts[c])
                self.steps += 1
                if self.steps > self.step_limit:
                    raise StepLimit(self.steps)
            return main
        finally:
            asyncio.wait = _real_wait
            uuid.uuid4 = _real_uuid4
            uuid.uuid1 = _real_uuid1
            events._set_running_loop(None)
            self._thread_id = None

    def pending_tasks(self):
        return sorted((t for t in asyncio.all_tasks(self) if not t.done()), key=lambda t: getattr(t, "_vseq", -1))

    def describe_pending(self):
        out = []
        for t in self.pending_tasks():
            stack = t.get_stack(limit=3)
            where = [f"{f.f_code.co_filename.rsplit('/', 2)[-1]}:{f.f_lineno}:{f.f_code.co_name}" for f in stack]
            out.append({"task": t.get_name(), "at": where})
        return out

    def dispose(self):
        # Close the coroutines of tasks left pending NOW (deterministically), instead of whenever the garbage
        # collector finds them: their ``finally``/``except`` blocks would otherwise run in the middle of a later
        # execution of the same worker process (cross-execution interference = un-owned nondeterminism).
        for t in self.pending_tasks():
            t._log_destroy_pending = False
            coro = t.get_coro()
            for _ in range(3):
                try:
                    coro.close()
                    break
                except BaseException:  # noqa -- "coroutine ignored GeneratorExit" etc.
                    continue
        self._ready.clear()
        self._scheduled.clear()
        self.gates.clear()
        try:
            self.close()
        except Exception:
            pass

    # ---- asyncio.wait with owned set order --------------------------------------------------
    async def _wait(self, fs, *, timeout=None, return_when=asyncio.ALL_COMPLETED):
        done, pending = await _real_wait(fs, timeout=timeout, return_when=return_when)
        key = lambda t: getattr(t, "_vseq", 1 << 30)  # noqa
        d = sorted(done, key=key)
        p = sorted(pending, key=key)
        if self.wait_perm and len(d) > 1 and not self.mute:
            idx = self.ctl.choose(_fact(len(d)), ("wait-order", len(d)))
            if idx:
                d = _perm_from_index(d, idx)
        return OrderedTaskSet(d), OrderedTaskSet(p)


class Execution:
    """Result of one controlled execution."""

    __slots__ = ("trace", "steps", "states", "signature", "result", "error", "hang", "pending",
                 "events", "loop_exceptions", "labels", "obs")

    def __init__(self):
        self.obs = None


_gc_frozen = False


def _gc_begin():
    """Own the garbage collector: everything allocated before the first execution is frozen (never scanned again),
    automatic collection is off while an execution runs, and a full collection runs right after it.  Finalizers of
    one execution's garbage (pending coroutines, 'exception never retrieved' reports) therefore run at a fixed
    point, never in the middle of a later execution."""
    global _gc_frozen
    if not _gc_frozen:
        gc.collect()
        gc.freeze()
        _gc_frozen = True
    gc.disable()


def _gc_end():
    try:
        gc.collect()
    finally:
        gc.enable()


def execute(main_factory, prefix=(), *, step_limit=2_000_000, keep_labels=False, timers_optional=True,
            wait_perm=True, keep_events=False, idle_only=False):
    """Run ``main_factory(loop)`` (returns a coroutine) under a fresh VLoop replaying ``prefix``."""
    _gc_begin()
    try:
        return _execute(main_factory, prefix, step_limit=step_limit, keep_labels=keep_labels,
                        timers_optional=timers_optional, wait_perm=wait_perm, keep_events=keep_events,
                        idle_only=idle_only)
    finally:
        _gc_end()


def _execute(main_factory, prefix, *, step_limit, keep_labels, timers_optional, wait_perm, keep_events, idle_only):
    ctl = Controller(prefix, keep_labels=keep_labels)
    loop = VLoop(ctl, step_limit=step_limit, timers_optional=timers_optional, wait_perm=wait_perm,
                 idle_only=idle_only)
    ex = Execution()
    ex.error = None
    ex.result = None
    ex.hang = False
    ex.pending = []
    try:
        try:
            main = loop.run_main(main_factory(loop))
        except StepLimit as e:
            ex.error = ("livelock", str(e))
            main = None
        if main is not None:
            if not main.done():
                ex.hang = True
                ex.pending = loop.describe_pending()
            elif main.cancelled():
                ex.error = ("cancelled", "")
            elif main.exception() is not None:
                ex.error = ("exception", main.exception())
            else:
                ex.result = main.result()
                rest = loop.describe_pending()
                ex.pending = rest
    finally:
        ex.trace = ctl.trace
        ex.labels = ctl.labels
        ex.steps = loop.steps
        ex.states = loop.state_hashes
        ex.signature = h64(tuple(map(repr, loop.events)))
        ex.events = loop.events if keep_events else None
        ex.loop_exceptions = loop.exceptions
        loop.dispose()
    return ex
