"""setup_cmd: determinism self-test of the controlled loop (same prefix twice => identical event log)."""
import sys


def main():
    from checks import C01
    from mc.loop import execute

    C01.worker_init()
    p = {"kind": "direct", "shape": [1, 0, 2], "elem": "scalar", "tag": "0"}

    def run(prefix):
        res = {}
        ex = execute(lambda loop: C01._main(loop, p, res), prefix, keep_events=True, keep_labels=True)
        return ex, (ex.trace, ex.labels, [repr(e) for e in ex.events], res.get("out"))

    root, _ = run([])
    prefixes = [(0, {})]
    # derive valid deviating prefixes from the root trace: last alternative at a few positions
    pos = [i for i, (n, c, f) in enumerate(root.trace) if n > 1]
    for i in pos[:: max(1, len(pos) // 6)]:
        prefixes.append((i + 1, {i: root.trace[i][0] - 1}))
    bad = 0
    for prefix in prefixes:
        a = run(prefix)[1]
        b = run(prefix)[1]
        if a != b:
            bad += 1
            print("NONDETERMINISM for prefix", prefix)
    print(f"selftest: {len(prefixes)} prefixes replayed twice:", "FAILED" if bad else "ok")
    return 1 if bad else 0


if __name__ == "__main__":
    sys.exit(main())
