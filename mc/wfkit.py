"""Workflow building blocks for harnesses: context construction, persistable harness steps."""
from __future__ import annotations

import asyncio
import logging
import os
from collections.abc import MutableMapping, MutableSequence
from typing import Any

from mc.env import sqlite_shim

sqlite_shim.install()

from streamflow.core.workflow import Port, Status, Token, Workflow  # noqa: E402
from streamflow.log_handler import logger as sf_logger  # noqa: E402
from streamflow.main import build_context  # noqa: E402
from streamflow.workflow.step import ConditionalStep, Transformer  # noqa: E402
from streamflow.workflow.token import (  # noqa: E402
    IterationTerminationToken,
    JobToken,
    ListToken,
    ObjectToken,
    TerminationToken,
)

import itertools  # noqa: E402

import streamflow.core.data as _core_data  # noqa: E402
import streamflow.data.manager as _data_manager  # noqa: E402

_dl_seq = itertools.count()


class SeqDataLocation(_core_data.DataLocation):
    """DataLocation hashed by creation order instead of by address: ``DefaultDataManager.get_source_location``
    iterates over a *set* of DataLocations, whose order would otherwise depend on object addresses (un-owned
    nondeterminism; see DESIGN 2.1).  Equality stays identity."""

    __slots__ = ("_seq",)

    def __init__(self, *a, **kw):
        super().__init__(*a, **kw)
        self._seq = next(_dl_seq)

    def __hash__(self):
        return self._seq


_data_manager.DataLocation = SeqDataLocation


def reset_cachebox_state():
    """cachebox's ``@cached`` keeps its per-key in-flight locks and pending errors in the *closure* of the decorated
    function, i.e. once per process, keyed without ``self``.  In production there is one event loop; here thousands
    of executions share a worker process, and an execution that ends with a task suspended inside such a lock would
    leave the lock held for every later execution (cross-execution interference).  Clear them per execution."""
    import streamflow.persistence.sqlite as _sq

    for name, attr in vars(_sq.SqliteDatabase).items():
        clo = getattr(attr, "__closure__", None)
        if not clo:
            continue
        for cell in clo:
            try:
                v = cell.cell_contents
            except ValueError:
                continue
            if type(v).__name__ == "Cache" and type(v).__module__.startswith("cachebox"):
                v.clear()
            elif isinstance(v, dict) and attr.__code__.co_freevars[clo.index(cell)] == "pending_errors":
                v.clear()


def reset_dataloc_seq():
    global _dl_seq
    _dl_seq = itertools.count()


_quiet = False


def quiet_logging():
    global _quiet
    if not _quiet:
        sf_logger.setLevel(logging.CRITICAL + 10)
        logging.getLogger("asyncio").setLevel(logging.CRITICAL + 10)
        # executions are cut at the horizon: coroutines still pending there are closed by VLoop.dispose()
        import warnings
        warnings.filterwarnings("ignore", message="coroutine .* was never awaited", category=RuntimeWarning)
        _quiet = True


_port_put_patched = False


def patch_port_put():
    """Log every Port.put into the running VLoop's event log (order signatures, abstract states)."""
    global _port_put_patched
    if _port_put_patched:
        return
    orig = Port.put

    def put(self, token):
        loop = asyncio.get_event_loop()
        lg = getattr(loop, "log", None)
        if lg is not None:
            lg(("put", self.name, type(token).__name__, getattr(token, "tag", None)))
        return orig(self, token)

    Port.put = put
    _port_put_patched = True


def make_context(workdir: str | None = None, failure_manager: dict | None = None, scheduler: dict | None = None,
                 extra: dict | None = None):
    cfg: dict[str, Any] = {
        "database": {"type": "default", "config": {"connection": ":memory:"}},
        "path": workdir or os.getcwd(),
    }
    if failure_manager is not None:
        cfg["failureManager"] = failure_manager
    if scheduler is not None:
        cfg["scheduling"] = {"scheduler": scheduler}
    if extra:
        cfg.update(extra)
    reset_dataloc_seq()
    reset_cachebox_state()
    return build_context(cfg)


# ---------------------------------------------------------------------------------------------
# token value helpers
# ---------------------------------------------------------------------------------------------

def tok_from_value(v, tag="0") -> Token:
    """Python value -> token tree (list -> ListToken, dict -> ObjectToken)."""
    if isinstance(v, list):
        return ListToken([tok_from_value(x, tag) for x in v], tag=tag)
    if isinstance(v, dict):
        return ObjectToken({k: tok_from_value(x, tag) for k, x in v.items()}, tag=tag)
    return Token(v, tag=tag, recoverable=True)


def value_of(token: Token):
    if isinstance(token, ListToken):
        return [value_of(t) for t in token.value]
    if isinstance(token, ObjectToken):
        return {k: value_of(t) for k, t in token.value.items()}
    if isinstance(token, TerminationToken):
        return ("TERM", token.value.name)
    if isinstance(token, IterationTerminationToken):
        return ("ITERM", token.tag)
    if isinstance(token, JobToken):
        return ("JOB", token.value.name)
    return token.value


def port_dump(port: Port):
    """Observable content of a port: list of (class, tag, value)."""
    return [(type(t).__name__, t.tag, _freeze(value_of(t))) for t in port.token_list]


def _freeze(v):
    if isinstance(v, list):
        return tuple(_freeze(x) for x in v)
    if isinstance(v, dict):
        return tuple(sorted((k, _freeze(x)) for k, x in v.items()))
    return v


PYFUNCS = {
    "id": lambda v: v,
    "inc": lambda v: _map_scalar(v, lambda x: x + 1 if isinstance(x, (int, float)) and not isinstance(x, bool) else x),
    "wrap": lambda v: {"w": v},
}


def _map_scalar(v, f):
    if isinstance(v, list):
        return [_map_scalar(x, f) for x in v]
    if isinstance(v, dict):
        return {k: _map_scalar(x, f) for k, x in v.items()}
    return f(v)


class PyTransformer(Transformer):
    """Element-wise transformer applying a named pure Python function to every input token value.

    One output port per input port (same name); persistable (recovery re-loads steps by class)."""

    def __init__(self, name: str, workflow: Workflow, func: str = "id"):
        super().__init__(name, workflow)
        self.func = func

    @classmethod
    async def _load(cls, row, loading_context):
        return cls(name=row["name"], workflow=await loading_context.load_workflow(row["workflow"]),
                   func=row["params"]["func"])

    async def _save_additional_params(self, database):
        return dict(await super()._save_additional_params(database)) | {"func": self.func}

    async def transform(self, inputs: MutableMapping[str, Token]):
        out = {}
        f = PYFUNCS[self.func]
        for name in self.output_ports:
            tok = inputs[name] if name in inputs else next(iter(inputs.values()))
            out[name] = tok_from_value(f(value_of(tok)), tag=tok.tag)
        return out


async def save_workflow(workflow: Workflow):
    await workflow.save(workflow.context.database)


def raw_db():
    """The raw sqlite3 connection of the (single) shim connection opened by the current context."""
    return sqlite_shim.connections[-1].raw


MERGES = {
    "pair": lambda d: {k: d[k] for k in sorted(d)},
    "sum": lambda d: sum(v for v in d.values() if isinstance(v, (int, float))),
    "list": lambda d: [d[k] for k in sorted(d)],
}


class PyMerge(Transformer):
    """Many-to-one transformer: output ``x`` = named function of the dict of input values."""

    def __init__(self, name: str, workflow: Workflow, func: str = "pair"):
        super().__init__(name, workflow)
        self.func = func

    @classmethod
    async def _load(cls, row, loading_context):
        return cls(name=row["name"], workflow=await loading_context.load_workflow(row["workflow"]),
                   func=row["params"]["func"])

    async def _save_additional_params(self, database):
        return dict(await super()._save_additional_params(database)) | {"func": self.func}

    async def transform(self, inputs):
        from streamflow.core.utils import get_tag

        v = MERGES[self.func]({k: value_of(t) for k, t in inputs.items()})
        return {next(iter(self.output_ports)): tok_from_value(v, tag=get_tag(inputs.values()))}
