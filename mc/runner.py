"""Common driver: tiers, evidence, known findings, VIOLATION lines, replay files."""
from __future__ import annotations

import hashlib
import json
import os
import shutil
import sys
import tempfile
import time

ROOT = os.path.dirname(os.path.dirname(os.path.abspath(__file__)))
# VERIF_EVIDENCE_DIR / VERIF_NO_REPLAY_FILES: used when evaluating seeded defects in scratch worktrees, so that such
# runs never overwrite the evidence of /repo itself nor litter /verif/replays
EVIDENCE_DIR = os.environ.get("VERIF_EVIDENCE_DIR") or os.path.join(ROOT, "evidence")
REPLAY_DIR = (os.path.join(tempfile.gettempdir(), "verif-scratch-replays") if os.environ.get("VERIF_NO_REPLAY_FILES")
              else os.path.join(ROOT, "replays"))
FINDINGS_FILE = os.path.join(ROOT, "known_findings.json")

_scratch = None


def scratch_dir() -> str:
    """Per-process scratch directory outside /repo and /verif, removed at exit."""
    global _scratch
    if _scratch is None:
        base = os.environ.get("VERIF_SCRATCH_BASE")
        if not base:
            # tmpfs keeps per-execution mkdir/rmtree out of the disk journal (16 workers contend otherwise)
            base = "/dev/shm" if os.path.isdir("/dev/shm") and os.access("/dev/shm", os.W_OK) else tempfile.gettempdir()
        _scratch = tempfile.mkdtemp(prefix="sfverif-", dir=base)
        import atexit

        pid = os.getpid()

        def _rm():
            if os.getpid() == pid:
                shutil.rmtree(_scratch, ignore_errors=True)

        atexit.register(_rm)
    return _scratch


def load_findings():
    try:
        with open(FINDINGS_FILE) as f:
            data = json.load(f)
    except FileNotFoundError:
        return []
    return data.get("findings", [])


def jsonable(x):
    try:
        json.dumps(x)
        return x
    except TypeError:
        if isinstance(x, dict):
            return {str(k): jsonable(v) for k, v in x.items()}
        if isinstance(x, (list, tuple, set, frozenset)):
            return [jsonable(v) for v in x]
        return repr(x)


class Report:
    """Collects what a check run covered and what it found; writes evidence and decides exit code."""

    def __init__(self, prop: str, tier: str, level: str, seed: int):
        self.prop = prop
        self.tier = tier
        self.level = level
        self.seed = seed
        self.t0 = time.time()
        self.coverage = {}
        self.assumptions = []
        self.failures = {}  # key -> dict(msg, replay)
        self.unreproducible = []
        self.internal_errors = []
        self.notes = []

    def fail(self, key: str, msg: str, replay: dict):
        """Record a (reproduced) violation identified by a stable key."""
        if key not in self.failures:
            self.failures[key] = {"msg": msg, "replay": replay}

    def finish(self) -> int:
        known = [f for f in load_findings() if (f.get("property") == self.prop or self.prop in f.get("also", []))
                 and f.get("status", "known") == "known"]
        known_keys = {f["key"]: f for f in known}
        violations = 0
        lines = []
        hit_known = set()
        for key, f in sorted(self.failures.items()):
            if key in known_keys:
                hit_known.add(key)
                continue
            violations += 1
            os.makedirs(REPLAY_DIR, exist_ok=True)
            payload = {"property": self.prop, "key": key, "message": f["msg"], "replay": jsonable(f["replay"])}
            digest = hashlib.sha1(json.dumps(payload, sort_keys=True).encode()).hexdigest()[:12]
            path = os.path.join(REPLAY_DIR, f"{self.prop}-{digest}.json")
            with open(path, "w") as fh:
                json.dump(payload, fh, indent=1, sort_keys=True)
            lines.append(f"VIOLATION property={self.prop} replay={path}")
            print(f"  violated: {key}: {f['msg']}"[:2000])
        for key in sorted(hit_known):
            print(f"KNOWN-FINDING: property={self.prop} {known_keys[key].get('what', key)} [{key}]")
        for ln in lines:
            print(ln)
        cov = dict(self.coverage)
        cov.setdefault("samples", [])
        cov["known_findings_hit"] = sorted(hit_known)
        cov["known_findings_listed_not_hit"] = sorted(set(known_keys) - hit_known)
        cov["unreproducible"] = self.unreproducible[:20]
        cov["internal_errors"] = self.internal_errors[:20]
        if self.notes:
            cov["notes"] = self.notes
        ev = {
            "property_id": self.prop,
            "tier": self.tier,
            "seed": self.seed,
            "level": self.level,
            "coverage": jsonable(cov),
            "assumptions": self.assumptions,
            "source_tree": os.environ.get("VERIF_REPO", "/repo"),
            "wall_s": round(time.time() - self.t0, 2),
            "violations": violations,
        }
        os.makedirs(EVIDENCE_DIR, exist_ok=True)
        tmp = os.path.join(EVIDENCE_DIR, f".{self.prop}.json.tmp")
        with open(tmp, "w") as fh:
            json.dump(ev, fh, indent=1, sort_keys=True)
        os.replace(tmp, os.path.join(EVIDENCE_DIR, f"{self.prop}.json"))
        summary = {k: v for k, v in cov.items() if isinstance(v, (int, float, bool, str)) and k != "rule"}
        print(f"[{self.prop}] tier={self.tier} seed={self.seed} wall={ev['wall_s']}s violations={violations} "
              f"known={len(hit_known)} {summary}")
        if self.internal_errors:
            print(f"[{self.prop}] INTERNAL ERRORS ({len(self.internal_errors)}):", file=sys.stderr)
            for e in self.internal_errors[:5]:
                print(e, file=sys.stderr)
            return 2 if not violations else 1
        return 1 if violations else 0


def e1_report(rep: Report, module, cases, stats, completed, levels, bound, samples=None, extra=None):
    """Fill a Report from an Explorer run: reproduce failures twice, fill coverage."""
    seen = {}
    for case_idx, choices, key, msg in stats.failures:
        if key in seen:
            continue
        seen[key] = (case_idx, choices, msg)
    for key, (case_idx, choices, msg) in seen.items():
        ok = 0
        for _ in range(2):
            try:
                from mc import explore as _ex

                out = _ex.with_wall_limit(lambda: module.run_case(cases[case_idx], choices), _ex.WALL_LIMIT)
                if any(k == key for k, _ in out.failures):
                    ok += 1
            except Exception as e:  # noqa
                pass
            except BaseException as e:  # noqa
                if type(e).__name__ == "WallTimeout" and key.endswith("|spin"):
                    ok += 1
                elif type(e).__name__ != "WallTimeout":
                    raise
        if ok == 2:
            rep.fail(key, msg, {"case": cases[case_idx], "choices": _rle(choices)})
        else:
            rep.unreproducible.append({"key": key, "case": cases[case_idx], "choices": _rle(choices), "reproduced": ok})
    if stats.divergences or stats.errors:
        rep.internal_errors.extend(stats.errors[:10])
    cov = rep.coverage
    cov.update({
        "evaluations": stats.executions,
        "states": max(len(stats.states), 1),
        "transitions": max(stats.transitions, 1),
        "traces_validated_against_impl": stats.executions,
        "distinct_nontrivial": len(stats.signatures),
        "distinct_outcomes": len(stats.outcomes),
        "choice_points": stats.choice_points,
        "max_menu": stats.max_menu,
        "cases": len(cases),
        "deviation_bound_requested": bound,
        "deviation_bound_completed": completed,
        "levels": levels,
        "exhaustive": completed >= bound,
        "divergences": stats.divergences,
        "divergences_recovered_by_reexploring_the_parent": getattr(stats, "divergences_recovered", 0),
        "reexecuted_lower_levels": stats.reexecuted,
        "states_capped": stats.states_capped,
    })
    if samples is not None:
        cov["samples"] = samples
    if extra:
        cov.update(extra)


def _rle(choices):
    """Sparse form of a choice list: [length, {pos: choice}]"""
    return {"len": len(choices), "nz": {str(i): c for i, c in enumerate(choices) if c}}


def unrle(d):
    if isinstance(d, list):
        return d
    return (int(d["len"]), {int(k): v for k, v in d["nz"].items()})


def tier_args(argv=None):
    import argparse

    ap = argparse.ArgumentParser()
    ap.add_argument("--tier", default=os.environ.get("VERIF_TIER", "quick"), choices=["quick", "thorough"])
    ap.add_argument("--replay", default=None)
    ap.add_argument("--workers", type=int, default=int(os.environ.get("VERIF_WORKERS", "0")) or None)
    ap.add_argument("--time-cap", type=float, default=None)
    return ap.parse_args(argv)


def seed() -> int:
    try:
        return int(os.environ.get("VERIF_SEED", "0"))
    except ValueError:
        return 0
