"""Direct drivers around single real steps: deliver tokens to input ports in an enumerated order."""
from __future__ import annotations

import asyncio


class Stream:
    """A source of tokens for one destination port.

    ``fifo`` True: only the head may be delivered next (a shared FIFO port in the engine);
    False: any remaining token may be delivered next (tokens produced by concurrent jobs).
    ``final``: token delivered after all others of this stream (the port's TerminationToken).
    """

    def __init__(self, name, port, tokens, fifo, final=None):
        self.name = name
        self.port = port
        self.tokens = list(tokens)
        self.fifo = fifo
        self.final = final
        self.final_done = final is None

    def options(self):
        if self.tokens:
            if self.fifo:
                return [0]
            return list(range(len(self.tokens)))
        if not self.final_done:
            return [-1]
        return []

    def deliver(self, idx):
        if idx == -1:
            self.final_done = True
            tok = self.final
        else:
            tok = self.tokens.pop(idx)
        self.port.put(tok)
        return tok


async def deliver_all(loop, streams, order=None, pause=True):
    """Deliver every token of every stream.

    ``order`` None: the next item is a *free* controller choice among all deliverable items (all
    interleavings are enumerated); otherwise ``order`` is an explicit list of (stream index, tag | 'TERM')
    pairs.  After each delivery the driver waits on a free gate: by default the gate opens when
    nothing else can run (step reached quiescence); as a deviation it opens earlier (batching).
    Returns the list of deliveries made, as (stream name, tag or 'TERM').
    """
    made = []
    k = 0
    while True:
        menu = [(si, i) for si, s in enumerate(streams) for i in s.options()]
        if not menu:
            break
        if order is None:
            c = loop.ctl.choose(len(menu), ("deliver", len(menu)), free=True)
            si, i = menu[c]
        else:
            si, key = order[k]
            st = streams[si]
            if key == "TERM":
                i = -1
            else:
                i = next(j for j, t in enumerate(st.tokens) if t.tag == key)
            if (si, i) not in menu:
                raise RuntimeError(f"explicit order item {order[k]} not deliverable (menu {menu})")
        k += 1
        tok = streams[si].deliver(i)
        made.append((streams[si].name, "TERM" if i == -1 else tok.tag))
        if pause:
            await loop.gate("driver", prio=1)
    return made
