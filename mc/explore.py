"""Deviation-bounded, stateless exploration of controlled executions, distributed over a process pool.

A check module provides ``run_case(params, prefix) -> Outcome``.  ``explore`` enumerates, for every
case, **all** executions whose number of (non-free) deviations from the default schedule is at most
``bound``; passes for bound 0, 1, .. are completed in order and the completed bound is reported.
"""
from __future__ import annotations

import importlib
import json
import multiprocessing as mp
import os
import random
import time
import traceback

import signal

from mc.loop import Divergence


class WallTimeout(BaseException):
    """One execution exceeded the wall-clock limit: code under test spins without yielding to the loop."""


def _on_alarm(signum, frame):
    raise WallTimeout()


def with_wall_limit(fn, seconds):
    """Run fn() under a wall-clock limit (SIGALRM).  The limit is ~100x a normal execution, so it only
    fires for synchronous spinning that the controlled loop's step limit cannot see."""
    if not seconds:
        return fn()
    old = signal.signal(signal.SIGALRM, _on_alarm)
    signal.setitimer(signal.ITIMER_REAL, seconds)
    dump = os.environ.get("VERIF_FAULTDUMP")
    if dump:
        import faulthandler

        fh = open(f"{dump}.{os.getpid()}", "a")
        faulthandler.dump_traceback_later(seconds + 20, file=fh)
    try:
        return fn()
    finally:
        signal.setitimer(signal.ITIMER_REAL, 0)
        signal.signal(signal.SIGALRM, old)
        if dump:
            faulthandler.cancel_dump_traceback_later()
            fh.close()


WALL_LIMIT = float(os.environ.get("VERIF_EXEC_WALL_LIMIT", "60"))


class Outcome:
    """What one execution yields (picklable)."""

    __slots__ = ("trace", "failures", "obs", "steps", "states", "signature", "info")

    def __init__(self, trace, failures=(), obs=None, steps=0, states=(), signature=0, info=None):
        self.trace = trace  # list of (n, c, free)
        self.failures = list(failures)  # list of (key, message)
        self.obs = obs  # hashable digest of the observable outcome
        self.steps = steps
        self.states = states
        self.signature = signature
        self.info = info


class Stats:
    def __init__(self):
        self.executions = 0
        self.reexecuted = 0
        self.transitions = 0
        self.states = set()
        self.signatures = set()
        self.outcomes = set()
        self.failures = []  # (case_idx, choices, key, msg) -- one per distinct key
        self._fkeys = set()
        self.divergences = 0
        self.divergences_recovered = 0
        self.redo = []  # (case_idx, parent prefix, bound, why): parents whose recorded trace could not be replayed
        self.errors = []
        self.choice_points = 0
        self.max_menu = 0
        self.states_capped = False
        self.levels = {}

    def merge(self, o: "Stats"):
        self.executions += o.executions
        self.reexecuted += o.reexecuted
        self.transitions += o.transitions
        if len(self.states) < 3_000_000:
            self.states |= o.states
        else:
            self.states_capped = True
        self.signatures |= o.signatures
        self.outcomes |= o.outcomes
        for f in o.failures:
            if f[2] not in self._fkeys and len(self.failures) < 5000:
                self._fkeys.add(f[2])
                self.failures.append(f)
        self.divergences += o.divergences
        self.divergences_recovered += o.divergences_recovered
        self.errors.extend(o.errors[:5])
        self.choice_points += o.choice_points
        self.max_menu = max(self.max_menu, o.max_menu)
        for k, v in o.levels.items():
            self.levels[k] = self.levels.get(k, 0) + v


_MODULE = None
_CASES = None


def _init_worker(module_name, cases):
    global _MODULE, _CASES
    _MODULE = importlib.import_module(module_name)
    _CASES = cases
    if hasattr(_MODULE, "worker_init"):
        _MODULE.worker_init()


def _dense(prefix):
    n, nz = prefix
    return [nz.get(i, 0) for i in range(n)]


def _subtree(task):
    """Explore (part of) the subtree rooted at ``prefix`` with total deviation bound ``bound``.

    After ``budget`` executions the unexplored part of the DFS stack is handed back to the master as
    new tasks (dynamic load balancing); nothing is explored twice.
    """
    case_idx, prefix, bound, budget, deadline = task
    st = Stats()
    stack = [prefix]
    complete = True
    params = _CASES[case_idx]
    done = 0
    while stack:
        if deadline is not None and time.time() > deadline:
            complete = False
            break
        if done >= budget:
            break
        pre = stack.pop()
        done += 1
        def attempt():
            o = _MODULE.run_case(params, pre)
            if pre[1] and max(pre[1]) >= len(o.trace):
                raise Divergence(f"short trace {len(o.trace)}")
            return o

        try:
            out = with_wall_limit(attempt, WALL_LIMIT)
        except WallTimeout:
            key = f"{getattr(_MODULE, 'PROP', '?')}|case={json.dumps(params, sort_keys=True, default=str)[:300]}|spin"
            if key not in st._fkeys:
                st._fkeys.add(key)
                st.failures.append((case_idx, _dense(pre), key,
                                    f"one execution did not finish within {WALL_LIMIT}s of wall-clock time: the code "
                                    f"under test spins without yielding to the event loop"))
            st.executions += 1
            continue
        except Divergence as e:
            # A replay that leaves the recorded menu means one of the two executions (the parent that recorded the
            # prefix, or this replay) was not repeatable.  Replay again; if it keeps diverging the PARENT's trace is
            # the odd one: hand the parent prefix back to the master, which re-explores it once (its children are
            # re-derived from a fresh execution).  Only a divergence that survives that is reported.
            again = None
            for _ in range(2):
                try:
                    again = with_wall_limit(attempt, WALL_LIMIT)
                    break
                except Divergence:
                    continue
                except BaseException:  # noqa
                    break
            if again is None:
                plen, nz = pre
                devs = {k: v for k, v in nz.items() if k >= 0}
                if devs:
                    # key -1 of a prefix carries its generation: 0 = derived from an original trace, 1 = derived from a
                    # re-explored parent (a divergence there is persistent)
                    last = max(devs)
                    pnz = {k: v for k, v in devs.items() if k != last}
                    st.redo.append((case_idx, ((max(pnz) + 1) if pnz else 0, pnz), bound, nz.get(-1, 0),
                                    f"{_dense(pre)[-12:]}: {e}"))
                else:
                    st.divergences += 1
                    st.errors.append(f"divergence case={case_idx} prefix={_dense(pre)[-12:]}: {e}")
                continue
            st.divergences_recovered += 1
            out = again
        except KeyboardInterrupt:
            raise
        except BaseException:  # noqa -- a BaseException escaping here would kill the pool worker and lose the task
            st.errors.append(f"harness error case={case_idx} prefix={_dense(pre)}:\n{traceback.format_exc()}")
            continue
        trace = out.trace
        plen, nz = pre
        ndev = sum(1 for _, c, f in trace if c and not f)
        st.executions += 1
        st.levels[ndev] = st.levels.get(ndev, 0) + 1
        st.transitions += out.steps
        st.states |= set(out.states)
        st.signatures.add(out.signature)
        st.outcomes.add((case_idx, out.obs))
        st.choice_points += len(trace)
        for n, _, _ in trace:
            if n > st.max_menu:
                st.max_menu = n
        for key, msg in out.failures:
            if key not in st._fkeys:
                st._fkeys.add(key)
                st.failures.append((case_idx, [c for _, c, _ in trace], key, msg))
        dev_prefix = sum(1 for _, c, f in trace[:plen] if c and not f)
        kids = []
        for i in range(plen, len(trace)):
            n, c, free = trace[i]
            cost = dev_prefix + (0 if free else 1)
            if cost > bound:
                continue
            for alt in range(1, n):
                d = dict(nz)
                d[i] = alt
                kids.append((i + 1, d))
        stack.extend(reversed(kids))
    leftover = [(case_idx, pre, bound) for pre in stack] if complete else []
    return st, leftover, complete


class Explorer:
    def __init__(self, module_name, cases, workers=None, seed=0):
        self.module_name = module_name
        self.cases = cases
        self.workers = workers or min(16, os.cpu_count() or 1)
        self.seed = seed
        self.pool = None

    def __enter__(self):
        from mc import runner

        runner.scratch_dir()  # created before the fork: workers use sub-directories of it, removed when the check exits
        ctx = mp.get_context("fork")
        self.pool = ctx.Pool(self.workers, initializer=_init_worker, initargs=(self.module_name, self.cases))
        return self

    def __exit__(self, *a):
        self.pool.terminate()
        self.pool.join()

    def run(self, bound, time_cap=None, case_bounds=None, progress=None, budget=48):
        """One pass: all executions with <= bound deviations (per case: min(bound, case_bounds[case])).

        Returns (stats, completed_bound, levels): completed_bound == bound iff the pass was not cut by the
        time cap (then every level <= bound is complete), else -1; levels = executions per deviation count.
        """
        import queue as _q
        from collections import deque

        total = Stats()
        t0 = time.time()
        deadline = (t0 + time_cap) if time_cap else None
        rng = random.Random(self.seed)
        order = list(range(len(self.cases)))
        rng.shuffle(order)
        todo = deque((ci, (0, {}), min(bound, (case_bounds or {}).get(ci, bound))) for ci in order)
        results = _q.Queue()
        inflight = 0
        ok = True
        stalls = 0
        redone = set()
        maxfly = self.workers * 3
        while todo or inflight:
            while todo and inflight < maxfly:
                ci, pre, b = todo.pop()
                self.pool.apply_async(_subtree, ((ci, pre, b, budget, deadline),), callback=results.put,
                                      error_callback=results.put)
                inflight += 1
            try:
                res = results.get(timeout=90)
                stalls = 0
            except _q.Empty:
                stalls += 1
                print(f"[explore] no result for {90 * stalls}s; inflight={inflight} todo={len(todo)}", flush=True)
                if stalls >= 4:
                    total.errors.append(f"explorer stalled: {inflight} task(s) never reported back (worker died?)")
                    ok = False
                    break
                continue
            inflight -= 1
            if isinstance(res, BaseException):
                total.errors.append(f"worker error: {res!r}")
                ok = False
                continue
            st, leftover, comp = res
            total.merge(st)
            for ci, ppre, b, gen, why in st.redo:
                k = (ci, ppre[0], tuple(sorted(ppre[1].items())))
                if gen >= 1:
                    # children re-derived from a fresh execution of the parent diverge again: persistent nondeterminism
                    total.divergences += 1
                    total.errors.append(f"divergence case={ci} prefix={why}")
                elif k not in redone:
                    redone.add(k)
                    total.divergences_recovered += 1
                    todo.append((ci, (ppre[0], {**ppre[1], -1: 1}), b))
            ok &= comp
            if comp:
                todo.extend(leftover)
            if deadline is not None and time.time() > deadline and todo:
                ok = False
                todo.clear()
        levels = [{"deviations": k, "executions": v} for k, v in sorted(total.levels.items())]
        return total, (bound if ok else -1), levels


def run_iterated(exp, top, time_cap, case_bounds, default_bound):
    """Iterate the bound: everything with <= top-1 deviations first (cheap), then the full bound in the time that is
    left.  If the cap cuts the second pass the lower levels are still complete and reported as such
    (completed == top-1); executions of the lower levels run twice are counted in ``reexecuted``."""
    n = len(exp.cases)
    case_bounds = case_bounds or {}
    if top < 2 or not time_cap:
        return exp.run(top, time_cap=time_cap, case_bounds=case_bounds)
    t0 = time.time()
    lower = {i: min(case_bounds.get(i, default_bound), top - 1) for i in range(n)}
    s1, c1, l1 = exp.run(top - 1, time_cap=time_cap, case_bounds=lower)
    if c1 < 0:
        return s1, c1, l1
    left = max(30.0, time_cap - (time.time() - t0))
    full = {i: case_bounds.get(i, default_bound) for i in range(n)}
    s2, c2, l2 = exp.run(top, time_cap=left, case_bounds=full)
    if c2 >= 0:
        s2.reexecuted = s1.executions
        return s2, c2, l2
    s1.merge(s2)
    s1.reexecuted = sum(x["executions"] for x in l2 if x["deviations"] < top)
    return s1, top - 1, l1 + [dict(x, partial=True) for x in l2 if x["deviations"] >= top]


def run_serial(module, cases, bound):
    """In-process exploration (debugging / replay)."""
    global _MODULE, _CASES
    _MODULE, _CASES = module, cases
    total = Stats()
    for ci in range(len(cases)):
        st, _, _ = _subtree((ci, (0, {}), bound, 1 << 60, None))
        total.merge(st)
    return total
