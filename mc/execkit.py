"""Executor kit: build complete workflows from the real step classes and run them through the real
``StreamFlowExecutor`` (real scheduler, deployment manager, data manager, failure managers) on a
controlled loop.  Only the *leaf* behaviour is harness code: what a job command computes, how long it
takes (a free gate), and whether it fails (the fault plan)."""
from __future__ import annotations

import asyncio
import json
import os
import posixpath
import shutil
from collections.abc import MutableMapping, MutableSequence
from typing import Any, cast

from mc import wfkit
from mc.wfkit import PyTransformer, tok_from_value, value_of

from streamflow.core.config import BindingConfig
from streamflow.core.data import DataType
from streamflow.core.deployment import DeploymentConfig, Target
from streamflow.core.exception import WorkflowExecutionException
from streamflow.core.scheduling import AvailableLocation, Hardware, Storage
from streamflow.core.utils import get_entity_ids, get_job_tag, get_tag
from streamflow.core.workflow import Command, CommandOutput, Job, Port, Status, Token, Workflow
from streamflow.data.remotepath import StreamFlowPath
from streamflow.deployment.connector import connector_classes
from streamflow.deployment.connector.local import LocalConnector
from streamflow.workflow.combinator import (
    CartesianProductCombinator,
    DotProductCombinator,
    LoopCombinator,
    LoopTerminationCombinator,
)
from streamflow.workflow.executor import StreamFlowExecutor
from streamflow.workflow.port import ConnectorPort, JobPort
from streamflow.workflow.step import (
    CombinatorStep,
    ConditionalStep,
    DefaultCommandOutputProcessor,
    DeployStep,
    ExecuteStep,
    GatherStep,
    LoopCombinatorStep,
    LoopOutputStep,
    ScatterStep,
    ScheduleStep,
    TransferStep,
)
from streamflow.workflow.token import (
    FileToken,
    IterationTerminationToken,
    ListToken,
    ObjectToken,
    TerminationToken,
)
from streamflow.workflow.utils import get_job_token


# ---------------------------------------------------------------------------------------------
# per-execution state (fault plan, execution log).  Commands/steps are re-loaded from the database
# by recovery, so this state lives in a module global that the harness resets for every execution.
# ---------------------------------------------------------------------------------------------

class RunState:
    def __init__(self, plan=None):
        # plan: list of {"job": name, "phase": "execute|schedule|transfer", "kind": "soft|failstop|raise",
        #                "count": n, "lose": ["own"|"all"|job names...]}
        self.plan = list(plan or [])
        self.counts: dict[tuple[str, str], int] = {}
        self.exec_log: list[str] = []  # job names in command start order
        self.completed_log: list[str] = []
        self.failure_log: list[tuple[str, str, str]] = []  # (job, phase, why)
        self.fail_sites: list[tuple[str, str]] = []  # (job, step name) parallel to failure_log
        self.job_dirs: dict[str, tuple[str, str, str]] = {}
        self.first_dirs: dict[str, tuple[str, str, str]] = {}  # directories of each job's FIRST attempt
        self.job_outputs: dict[str, list[str]] = {}  # job -> output paths written
        self.lost_jobs: set[str] = set()
        self.barrier = None
        self.first_transfer: dict[str, str] = {}  # job step name -> name of its first transfer step (fault plans aim at it)
        # read-only transfers to a site with its own storage leave a physical replica: replica path -> path it copies
        self.replica_of: dict[str, str] = {}
        self.truly_lost: set[str] = set()  # lost jobs with at least one output of which no copy at all was left
        self.loss_events: dict[str, int] = {}  # job -> how many times existing data of that job was deleted

    def hit(self, job: str, phase: str):
        """Number of the attempt (0-based) for (job, phase) and the fault entry that applies, if any."""
        n = self.counts.get((job, phase), 0)
        self.counts[(job, phase)] = n + 1
        for f in self.plan:
            if f["job"] == job and f["phase"] == phase and n < f.get("count", 1):
                return n, f
        return n, None


RUN: RunState | None = None


def reset_run(plan=None) -> RunState:
    global RUN
    RUN = RunState(plan)
    return RUN


async def _gate(label):
    loop = asyncio.get_running_loop()
    g = getattr(loop, "gate", None)
    if g is None:
        await asyncio.sleep(0)
    else:
        await g(label)


# ---------------------------------------------------------------------------------------------
# connector
# ---------------------------------------------------------------------------------------------

class KitLocalConnector(LocalConnector):
    """LocalConnector with a constant, cheap hardware description (no psutil probing)."""

    def __init__(self, deployment_name: str, config_dir: str, transferBufferSize: int = 2 ** 16,
                 cores: float = 64.0, slots: int | None = None, nlocs: int = 1, own_storage: bool = False):
        super(LocalConnector, self).__init__(deployment_name, config_dir, transferBufferSize)
        self._nlocs = nlocs
        # own_storage: a site whose storage is separate from the other deployments' (as every remote connector's is):
        # job inputs are transferred read-only and a read-only transfer into it is a physical copy, not a symbolic link
        self.own_storage = own_storage
        self._hardware = Hardware(cores=float(cores), memory=float(2 ** 20),
                                  storage={os.sep: Storage(mount_point=os.sep, size=float(2 ** 30))})
        self._slots = slots

    async def get_available_locations(self, service=None):
        # nlocs > 1: several locations of ONE deployment (all on this machine's file system), for multi-location targets
        names = ["__LOCAL__"] + [f"node-{i}" for i in range(1, self._nlocs)]
        return {
            n: AvailableLocation(
                name=n, deployment=self.deployment_name, service=service, hostname="localhost",
                local=True, slots=self._slots or 1, hardware=None if self._slots else self._hardware)
            for n in names
        }

    async def copy_local_to_remote(self, src, dst, locations, read_only=False):
        await super().copy_local_to_remote(src, dst, locations, read_only and not self.own_storage)

    async def copy_remote_to_local(self, src, dst, location, read_only=False):
        await super().copy_remote_to_local(src, dst, location, read_only and not self.own_storage)

    async def copy_remote_to_remote(self, src, dst, locations, source_location, source_connector=None, read_only=False):
        await super().copy_remote_to_remote(src, dst, locations, source_location, source_connector,
                                            read_only and not self.own_storage)

    async def run(self, location, command, environment=None, workdir=None, stdin=None, stdout=None, stderr=None,
                  capture_output=False, timeout=None, job_name=None):
        raise WorkflowExecutionException(f"KitLocalConnector cannot run subprocesses under the controlled loop: {command}")

    @classmethod
    def get_schema(cls) -> str:
        return LocalConnector.get_schema()


connector_classes["kitlocal"] = KitLocalConnector


# ---------------------------------------------------------------------------------------------
# tokens, commands, processors, harness steps (all persistable)
# ---------------------------------------------------------------------------------------------

class KitFileToken(FileToken):
    async def get_paths(self, context) -> MutableSequence[str]:
        return [self.value]


def _register(context, location, path: str, relpath: str):
    return context.data_manager.register_path(location=location, path=path, relpath=relpath, data_type=DataType.PRIMARY)


async def build_kit_token(context, job: Job, value: Any, recoverable: bool) -> Token:
    tag = get_tag(job.inputs.values())
    if isinstance(value, list):
        return ListToken(tag=tag, value=[await build_kit_token(context, job, v, recoverable) for v in value])
    if isinstance(value, dict):
        if value.get("class") == "File":
            loc = next(iter(context.scheduler.get_locations(job.name)))
            path = value["path"]
            rel = (os.path.relpath(path, job.output_directory)
                   if job.output_directory and path.startswith(job.output_directory) else os.path.basename(path))
            _register(context, loc, path, rel)
            return KitFileToken(tag=tag, value=path, recoverable=recoverable)
        return ObjectToken(tag=tag, value={k: await build_kit_token(context, job, v, recoverable)
                                           for k, v in value.items()})
    return Token(tag=tag, value=value, recoverable=recoverable)


def plain_value(token: Token):
    """token tree -> python value; file tokens become {'class':'File','path':...}"""
    if isinstance(token, ListToken):
        return [plain_value(t) for t in token.value]
    if isinstance(token, ObjectToken):
        return {k: plain_value(t) for k, t in token.value.items()}
    if isinstance(token, FileToken):
        return {"class": "File", "path": token.value}
    return token.value


class KitOutputProcessor(DefaultCommandOutputProcessor):
    async def process(self, job, command_output, connector=None, recoverable=False):
        value = (await command_output).value
        # collecting a job's outputs is I/O on the job's location (listing, checksums): it takes an environment-owned
        # amount of time, so other jobs' commands may complete in between (seeded defect C07-1 lives in this window)
        await _gate(f"collect:{job.name}")
        return await build_kit_token(self.workflow.context, job, value, recoverable)


def _apply_op(op: str, job: Job, inputs: dict[str, Any]):
    """Pure part of a command: python values in, python value out (files handled by caller)."""
    vals = list(inputs.values())
    if op == "copy":
        return vals[0] if len(vals) == 1 else vals
    if op == "inc":
        return wfkit.PYFUNCS["inc"](vals[0] if len(vals) == 1 else vals)
    if op == "sum":
        return sum(v for v in vals if isinstance(v, (int, float)))
    if op == "pair":
        return {k: v for k, v in sorted(inputs.items())}
    if op == "const":
        return 7
    raise NotImplementedError(op)


def _copy_files(value, job: Job, counter: list):
    """Copy every File in ``value`` into the job's output directory (python I/O); missing input -> error."""
    if isinstance(value, list):
        return [_copy_files(v, job, counter) for v in value]
    if isinstance(value, dict):
        if value.get("class") == "File":
            src = value["path"]
            if not os.path.exists(src):
                raise FileNotFoundError(src)
            os.makedirs(job.output_directory, exist_ok=True)
            counter[0] += 1
            dst = os.path.join(job.output_directory, f"out{counter[0]}-{os.path.basename(src)}")
            RUN.job_outputs.setdefault(job.name, []).append(dst)
            with open(src, "rb") as f:
                data = f.read()
            with open(dst, "wb") as f:
                f.write(data + b"+")
            return {"class": "File", "path": dst}
        return {k: _copy_files(v, job, counter) for k, v in value.items()}
    return value


def _lose(run: RunState, context, job: Job, what):
    """Delete data according to the fault plan: 'own' = this job's directories, 'all' = whole workdir,
    otherwise a list of job names whose output directories are deleted."""
    targets = []
    if isinstance(what, dict) and "outputs" in what:
        # {"outputs": [jobs]}: delete the CURRENT output directory of those jobs (what they produced, original or
        # regenerated), not their input/tmp directories -- a producer that is being re-executed is not disturbed
        for n in what["outputs"]:
            dirs = run.job_dirs.get(n)
            if dirs and dirs[1]:
                targets.append(dirs[1])
                if n != job.name and os.path.isdir(dirs[1]):
                    run.lost_jobs.add(n)
    elif isinstance(what, dict):
        # {"original": [jobs]}: delete the directories those jobs had on their FIRST attempt only -- "the data was lost
        # once"; copies regenerated by a recovery that is already under way are not touched
        for n in what["original"]:
            dirs = run.first_dirs.get(n)
            if dirs:
                targets.extend(d for d in dirs if d)
                if n != job.name and any(d and os.path.isdir(d) for d in dirs):
                    run.lost_jobs.add(n)
    elif what == "all":
        # every job directory created so far (not the workflow inputs, which live outside the work area)
        for n, dirs in run.job_dirs.items():
            targets.extend(d for d in dirs if d)
            if n != job.name:
                run.lost_jobs.add(n)
        targets.extend(d for d in (job.input_directory, job.output_directory, job.tmp_directory) if d)
    else:
        names = [job.name] if what in (None, "own") else list(what)
        for n in names:
            dirs = run.job_dirs.get(n) or ((job.input_directory, job.output_directory, job.tmp_directory) if n == job.name else None)
            if dirs:
                targets.extend(d for d in dirs if d)
                if n != job.name:
                    run.lost_jobs.add(n)
    owner = {}
    for n, dirs in list(run.job_dirs.items()) + list(run.first_dirs.items()):
        for d in dirs:
            owner[d] = n
    hit = set()
    for d in targets:
        if d and os.path.isdir(d):
            if d in owner:
                hit.add(owner[d])
            shutil.rmtree(d, ignore_errors=True)
    for n in hit:
        run.loss_events[n] = run.loss_events.get(n, 0) + 1
    # a lost job stays "replica-saved" as long as every file it wrote still has a physical copy somewhere
    for n in run.lost_jobs - run.truly_lost:
        outs = run.job_outputs.get(n)
        if not outs or not all(os.path.exists(o) or any(root == o and os.path.exists(r) for r, root in run.replica_of.items())
                               for o in outs):
            run.truly_lost.add(n)


class GateCommand(Command):
    """Job command: takes a controller-owned amount of time (free gate), consults the fault plan,
    computes ``op`` with python I/O, records the execution in the ``execution`` table."""

    def __init__(self, step, op: str = "copy"):
        super().__init__(step)
        self.op = op

    @classmethod
    async def _load(cls, row, loading_context, step):
        return cls(step=step, op=row["op"])

    async def _save_additional_params(self, database):
        return dict(await super()._save_additional_params(database)) | {"op": self.op}

    async def execute(self, job: Job) -> CommandOutput:
        run = RUN
        context = self.step.workflow.context
        run.exec_log.append(job.name)
        run.job_dirs[job.name] = (job.input_directory, job.output_directory, job.tmp_directory)
        run.first_dirs.setdefault(job.name, run.job_dirs[job.name])
        n, fault = run.hit(job.name, "execute")
        await _gate(f"job:{job.name}#{n}")
        if fault is not None and fault.get("barrier") and n == 0:
            # simultaneous failures (a node crash takes several jobs down at the same instant): the failing jobs of the
            # plan wait for each other and then fail back to back, with nothing else happening in between
            if run.barrier is None:
                run.barrier = [0, asyncio.Event()]
            run.barrier[0] += 1
            if run.barrier[0] >= sum(1 for f in run.plan if f.get("barrier") and f["phase"] == "execute"):
                run.barrier[1].set()
            else:
                await run.barrier[1].wait()
        if fault is not None:
            run.failure_log.append((job.name, "execute", fault["kind"]))
            run.fail_sites.append((job.name, self.step.name))
            if fault["kind"] == "failstop":
                _lose(run, context, job, fault.get("lose"))
            if fault["kind"] == "raise":
                raise WorkflowExecutionException(f"Injected exception in {job.name}")
            out = CommandOutput("Injected failure", Status.FAILED)
        else:
            try:
                inputs = {k: plain_value(t) for k, t in job.inputs.items()}
                counter = [0]
                run.job_outputs[job.name] = []
                value = _copy_files(_apply_op(self.op, job, inputs), job, counter)
                out = CommandOutput(value, Status.COMPLETED)
                run.completed_log.append(job.name)
            except FileNotFoundError as e:
                # missing input data = ordinary (recoverable) job failure, logged as collateral
                run.failure_log.append((job.name, "execute", f"missing-input:{e}"))
                run.fail_sites.append((job.name, self.step.name))
                out = CommandOutput(f"missing input {e}", Status.FAILED)
        job_token = get_job_token(job.name, cast(ExecuteStep, self.step).get_job_port().token_list)
        await context.database.update_execution(
            await context.database.add_execution(self.step.persistent_id, job_token.persistent_id, self.op),
            {"status": out.status},
        )
        return out


class PlanScheduleStep(ScheduleStep):
    """ScheduleStep that can fail (after the scheduler granted the job) according to the fault plan."""

    async def _set_job_directories(self, connector, locations, job):
        n, fault = RUN.hit(job.name, "schedule")
        if fault is not None:
            RUN.failure_log.append((job.name, "schedule", fault["kind"]))
            RUN.fail_sites.append((job.name, self.name))
            if fault["kind"] == "failstop":
                _lose(RUN, self.workflow.context, job, fault.get("lose"))
            raise WorkflowExecutionException(f"Injected error into {self.name}")
        await super()._set_job_directories(connector, locations, job)
        RUN.job_dirs[job.name] = (job.input_directory, job.output_directory, job.tmp_directory)
        RUN.first_dirs.setdefault(job.name, RUN.job_dirs[job.name])


class PlanTransferStep(TransferStep):
    async def _transfer_path(self, job: Job, path: str) -> str:
        ctx = self.workflow.context
        dst_connector = ctx.scheduler.get_connector(job.name)
        dst_locations = ctx.scheduler.get_locations(job.name)
        if source_location := await ctx.data_manager.get_source_location(
            path=path, dst_deployment=dst_connector.deployment_name
        ):
            dst_path = os.path.join(job.input_directory, source_location.relpath)
            readonly = bool(getattr(dst_connector, "own_storage", False))
            try:
                await ctx.data_manager.transfer_data(
                    src_location=source_location.location, src_path=source_location.path,
                    dst_locations=dst_locations, dst_path=dst_path, writable=not readonly)
                if readonly and not os.path.islink(dst_path) and os.path.exists(dst_path):
                    RUN.replica_of[dst_path] = RUN.replica_of.get(source_location.path, source_location.path)
            except (WorkflowExecutionException, OSError, RuntimeError) as err:
                # RuntimeError: transfer_data called with an empty location list (the job was rolled back meanwhile and its
                # allocation cleared): `next(iter(dst_locations))` raises StopIteration inside the coroutine
                RUN.failure_log.append((job.name, "transfer", f"collateral:{type(err).__name__}"))
                RUN.fail_sites.append((job.name, self.name))
                raise WorkflowExecutionException(f"Job {job.name} failed transfer: {err}")
        else:
            RUN.failure_log.append((job.name, "transfer", "collateral:no-source"))
            RUN.fail_sites.append((job.name, self.name))
            raise WorkflowExecutionException(f"Job {job.name} input does not exist: File {path}")
        return dst_path

    async def _transfer(self, job: Job, token: Token) -> Token:
        if isinstance(token, ListToken):
            return token.update([await self._transfer(job, t) for t in token.value])
        if isinstance(token, ObjectToken):
            return token.update({k: await self._transfer(job, t) for k, t in token.value.items()})
        if isinstance(token, FileToken):
            t = token.update(await self._transfer_path(job, token.value))
            t.recoverable = False
            return t
        t = token.update(token.value)
        t.recoverable = False
        return t

    async def transfer(self, job: Job, token: Token) -> Token:
        # a job with several inputs has several transfer steps: the fault plan's "transfer" phase means the FIRST of them
        # (by name); attempts and injected failures are counted on that step only, the siblings just transfer
        first = RUN.first_transfer.get(self.name.rsplit("/__transfer__/", 1)[0])
        if first is not None and self.name != first:
            await _gate(f"xfer:{job.name}:{self.name.rsplit('/', 1)[1]}")
            return await self._transfer(job, token)
        n, fault = RUN.hit(job.name, "transfer")
        if fault is not None:
            RUN.failure_log.append((job.name, "transfer", fault["kind"]))
            RUN.fail_sites.append((job.name, self.name))
            if fault["kind"] == "failstop":
                _lose(RUN, self.workflow.context, job, fault.get("lose"))
            raise WorkflowExecutionException(f"Injected error into {self.name}")
        await _gate(f"xfer:{job.name}#{n}")
        return await self._transfer(job, token)


PREDS = {
    "true": lambda v: True,
    "false": lambda v: False,
    "odd": lambda v: isinstance(v, int) and v % 2 == 1,
    "lt3": lambda v: isinstance(v, int) and v < 3,
    "lt1": lambda v: isinstance(v, int) and v < 1,
    "lt11": lambda v: isinstance(v, int) and v < 11,
}


class PyConditionalStep(ConditionalStep):
    """Conditional step with a named python predicate on the first input (CWL ``when`` semantics:
    true -> forward inputs, false -> a None token on every skip port)."""

    def __init__(self, name, workflow, pred: str = "true", loop: bool = False):
        super().__init__(name, workflow)
        self.pred = pred
        self.loop = loop
        self.skip_ports: MutableMapping[str, str] = {}

    def add_skip_port(self, name: str, port: Port) -> None:
        if port.name not in self.workflow.ports:
            self.workflow.ports[port.name] = port
        self.skip_ports[name] = port.name

    def get_skip_ports(self):
        return {k: self.workflow.ports[v] for k, v in self.skip_ports.items()}

    async def _save_additional_params(self, database):
        return dict(await super()._save_additional_params(database)) | {
            "pred": self.pred, "loop": self.loop,
            "skip_ports": {k: p.persistent_id for k, p in self.get_skip_ports().items()}}

    @classmethod
    async def _load(cls, row, loading_context):
        p = row["params"]
        step = cls(name=row["name"], workflow=await loading_context.load_workflow(row["workflow"]),
                   pred=p["pred"], loop=p["loop"])
        for k, pid in p["skip_ports"].items():
            step.add_skip_port(k, await loading_context.load_port(pid))
        return step

    async def _eval(self, inputs):
        first = inputs[next(iter(sorted(inputs)))]
        return PREDS[self.pred](value_of(first))

    async def _on_true(self, inputs):
        for port_name, port in self.get_output_ports().items():
            port.put(await self._persist_token(token=inputs[port_name].update(inputs[port_name].value), port=port,
                                               input_token_ids=get_entity_ids(inputs.values())))

    async def _on_false(self, inputs):
        for port in self.get_skip_ports().values():
            if self.loop:
                port.put(IterationTerminationToken(tag=get_tag(inputs.values())))
            else:
                port.put(await self._persist_token(token=Token(value=None, tag=get_tag(inputs.values())), port=port,
                                                   input_token_ids=get_entity_ids(inputs.values())))


# ---------------------------------------------------------------------------------------------
# workflow builder
# ---------------------------------------------------------------------------------------------

class WB:
    """Small builder around the real step classes.  Names are deterministic."""

    def __init__(self, context, workdir: str, name="wf", recoverable_inputs=True, nlocs=1, sites=None):
        self.ctx = context
        self.nlocs = nlocs
        # sites: job step name -> deployment; every deployment other than "kit" is a site with its own storage
        self.sites = dict(sites or {})
        self._site_cfgs = {}
        self._site_steps = {}
        self.wf = Workflow(context, config={}, name=name)
        self.workdir = workdir
        self.n = 0
        self.inputs: list[tuple[Port, Token]] = []
        self.deploy_cfg = DeploymentConfig(name="kit", type="kitlocal", config={"nlocs": nlocs} if nlocs > 1 else {},
                                           external=False, lazy=False, workdir=workdir)
        self._deploy_step = None
        self.job_steps: dict[str, ExecuteStep] = {}
        self.recoverable_inputs = recoverable_inputs

    def _name(self, base):
        self.n += 1
        return f"/{base}{self.n}"

    def port(self, name=None, cls=Port):
        return self.wf.create_port(cls=cls, name=name)

    def local_location(self):
        from streamflow.core.deployment import ExecutionLocation

        return ExecutionLocation(name="__LOCAL__", deployment="kit", hostname="localhost", local=True)

    def _file_tok(self, v, tag):
        """python value -> token tree with KitFileToken leaves for {'class':'File','content':...} (file created under
        <workdir>/__inputs__ and registered as an available primary copy)"""
        if isinstance(v, list):
            return ListToken([self._file_tok(x, tag) for x in v], tag=tag)
        if isinstance(v, dict):
            if v.get("class") == "File":
                f = make_input_file(self.workdir, v["name"], v["content"], self.ctx)
                self.ctx.data_manager.register_path(location=self.local_location(), path=f["path"], relpath=v["name"])
                return KitFileToken(f["path"], tag=tag, recoverable=True)
            return ObjectToken({k: self._file_tok(x, tag) for k, x in v.items()}, tag=tag)
        return Token(v, tag=tag, recoverable=True)

    def inp(self, name, value, tag="0"):
        p = self.port(name=f"in-{name}")
        tok = self._file_tok(value, tag)
        self.inputs.append((p, tok))
        return p

    def out(self, name, port):
        self.wf.output_ports[name] = port.name

    def tr(self, port, func="inc", name=None):
        s = self.wf.create_step(PyTransformer, name=name or self._name("tr"), func=func)
        s.add_input_port("x", port)
        o = self.port()
        s.add_output_port("x", o)
        return o

    def tr2(self, ports: dict, func="id"):
        s = self.wf.create_step(PyTransformer, name=self._name("tr"), func=func)
        outs = {}
        for k, p in ports.items():
            s.add_input_port(k, p)
            outs[k] = self.port()
            s.add_output_port(k, outs[k])
        return outs

    def scatter(self, port):
        s = self.wf.create_step(ScatterStep, name=self._name("sc") + "-scatter")
        s.add_input_port("x", port)
        o = self.port()
        s.add_output_port("x", o)
        return o, s.get_size_port()

    def gather(self, port, size_port, depth=1):
        g = self.wf.create_step(GatherStep, name=self._name("ga") + "-gather", size_port=size_port, depth=depth)
        g.add_input_port("x", port)
        o = self.port()
        g.add_output_port("x", o)
        return o

    def combinator(self, ports: dict, kind="dot", depth=1):
        nm = self._name(kind)
        comb = (DotProductCombinator(name=nm + "-c", workflow=self.wf) if kind == "dot"
                else CartesianProductCombinator(name=nm + "-c", workflow=self.wf, depth=depth))
        for k in ports:
            comb.add_item(k)
        s = self.wf.create_step(CombinatorStep, name=nm + "-combinator", combinator=comb)
        outs = {}
        for k, p in ports.items():
            s.add_input_port(k, p)
            outs[k] = self.port()
            s.add_output_port(k, outs[k])
        return outs

    def cond(self, ports: dict, pred: str, skip_to: dict | None = None):
        s = self.wf.create_step(PyConditionalStep, name=self._name("when"), pred=pred)
        outs = {}
        for k, p in ports.items():
            s.add_input_port(k, p)
            outs[k] = self.port()
            s.add_output_port(k, outs[k])
        for k, p in (skip_to or {}).items():
            s.add_skip_port(k, p)
        return outs, s

    def deploy_step(self):
        if self._deploy_step is None:
            self._deploy_step = self.wf.create_step(
                DeployStep, name="/__deploy__/kit", deployment_config=self.deploy_cfg,
                connector_port=self.port(cls=ConnectorPort))
        return self._deploy_step

    def site_step(self, site):
        if site == "kit":
            return self.deploy_step(), self.deploy_cfg
        if site not in self._site_steps:
            self._site_cfgs[site] = DeploymentConfig(name=site, type="kitlocal", config={"own_storage": True},
                                                     external=False, lazy=False, workdir=self.workdir)
            self._site_steps[site] = self.wf.create_step(
                DeployStep, name=f"/__deploy__/{site}", deployment_config=self._site_cfgs[site],
                connector_port=self.port(cls=ConnectorPort))
        return self._site_steps[site], self._site_cfgs[site]

    def job(self, ports: dict, op="copy", name=None, plan_steps=True, out_name="out", dirs=None, locations=1):
        """schedule -> transfer(per input) -> execute; returns the output port."""
        name = name or self._name("job")
        site = self.sites.get(name, "kit")
        dep, dep_cfg = self.site_step(site)
        binding = BindingConfig(targets=[Target(deployment=dep_cfg, workdir=self.workdir, locations=locations)])
        sched = self.wf.create_step(
            PlanScheduleStep if plan_steps else ScheduleStep, name=posixpath.join(name, "__schedule__"),
            job_prefix=name, connector_ports={site: dep.get_output_port()}, binding_config=binding,
            **({k: d for k, d in zip(("input_directory", "output_directory", "tmp_directory"), dirs) if d} if dirs else {}))
        ex = self.wf.create_step(ExecuteStep, name=name, job_port=sched.get_output_port())
        ex.command = GateCommand(ex, op=op)
        if RUN is not None and ports:
            RUN.first_transfer[name] = posixpath.join(name, "__transfer__", min(ports))
        for k, p in ports.items():
            sched.add_input_port(k, p)
            t = self.wf.create_step(PlanTransferStep, name=posixpath.join(name, "__transfer__", k),
                                    job_port=sched.get_output_port())
            t.add_input_port(k, p)
            tp = self.port()
            t.add_output_port(k, tp)
            ex.add_input_port(k, tp)
        o = self.port()
        ex.add_output_port(out_name, o, KitOutputProcessor(out_name, self.wf))
        self.job_steps[name] = ex
        return o

    def loop(self, ports: dict, pred: str, body, outputs: list[str], method="last", name=None):
        """The loop sub-graph exactly as CWLTranslator wires it (see translator.py _create_loop_condition
        and the 'Process loop outputs' block).  ``body(wb, ports) -> ports`` builds the loop body."""
        from streamflow.cwl.step import CWLLoopOutputAllStep, CWLLoopOutputLastStep
        from streamflow.cwl.transformer import ForwardTransformer

        nm = name or self._name("loop")
        comb = LoopCombinator(workflow=self.wf, name=nm + "-loop-combinator")
        fwd = {}
        for k, p in ports.items():
            f = self.wf.create_step(ForwardTransformer, name=f"{nm}/{k}-input-forward-transformer")
            f.add_input_port(k, p)
            fwd[k] = self.port()
            f.add_output_port(k, fwd[k])
            comb.add_item(k)
        cstep = self.wf.create_step(LoopCombinatorStep, name=nm + "-loop-combinator", combinator=comb)
        for k, p in fwd.items():
            cstep.add_input_port(k, p)
            cstep.add_output_port(k, self.port())
        when = self.wf.create_step(PyConditionalStep, name=nm + "-loop-when", pred=pred, loop=True)
        inner = {}
        for k in ports:
            when.add_input_port(k, cstep.get_output_port(k))
            inner[k] = self.port()
            when.add_output_port(k, inner[k])
        body_out = body(self, inner)
        # outputs
        tcomb = LoopTerminationCombinator(workflow=self.wf, name=nm + "-loop-termination-combinator")
        tstep = self.wf.create_step(CombinatorStep, name=nm + "-loop-terminator", combinator=tcomb)
        for k, p in cstep.get_input_ports().items():
            tstep.add_output_port(k, p)
            tcomb.add_output_item(k)
        ext = {}
        internal = dict(body_out)
        for k in outputs:
            f = self.wf.create_step(ForwardTransformer, name=f"{nm}/{k}-output-forward-transformer")
            f.add_input_port(k, body_out[k])
            fo = self.port()
            f.add_output_port(k, fo)
            internal[k] = fo
            lo = self.wf.create_step(CWLLoopOutputLastStep if method == "last" else CWLLoopOutputAllStep,
                                     name=f"{nm}/{k}-loop-output")
            lo.add_input_port(k, fo)
            when.add_skip_port(k, fo)
            ext[k] = self.port()
            lo.add_output_port(k, ext[k])
            tstep.add_input_port(k, ext[k])
            tcomb.add_item(k)
        for k in ports:
            b = self.wf.create_step(ForwardTransformer, name=f"{nm}/{k}-back-propagation-transformer")
            b.add_input_port(k, internal[k])
            b.add_output_port(k, cstep.get_input_port(k))
        return ext

    async def finish(self):
        """Save the workflow, persist and inject the input tokens (followed by termination)."""
        await self.wf.save(self.ctx.database)
        for p, tok in self.inputs:
            await tok.save(self.ctx.database, port_id=p.persistent_id)
            p.put(tok)
            p.put(TerminationToken())
        return self.wf


def new_workdir(tag: str) -> str:
    from mc import runner

    base = os.path.join(runner.scratch_dir(), f"p{os.getpid()}")
    d = os.path.join(base, tag)
    if os.path.isdir(d):
        shutil.rmtree(d, ignore_errors=True)
    os.makedirs(d, exist_ok=True)
    return d


def make_input_file(workdir: str, name: str, content: str, context) -> dict:
    """Create a workflow input file outside the job work area and register it as available."""
    d = os.path.join(workdir, "__inputs__")
    os.makedirs(d, exist_ok=True)
    path = os.path.join(d, name)
    with open(path, "w") as f:
        f.write(content)
    return {"class": "File", "path": path}
