"""E2 -- explicit-state breadth-first search over operation histories on the real objects.

A *state is the history that reaches it*: ``step(hist)`` builds fresh real objects, replays ``hist``
through the real methods (the reference model is stepped alongside and compared by ``step`` itself)
and returns ``StepResult(canon, failures, enabled, transitions)``.  States are de-duplicated on
``canon`` (a sorted, property-relevant projection -- each check argues why merged states have equal
futures).  Every history up to ``max_depth`` whose prefix states are all distinct is explored.
"""
from __future__ import annotations

import importlib
import multiprocessing as mp
import os
import time
import traceback


class StepResult:
    __slots__ = ("canon", "failures", "enabled", "transitions", "obs")

    def __init__(self, canon, failures=(), enabled=(), transitions=1, obs=None):
        self.canon = canon
        self.failures = list(failures)
        self.enabled = list(enabled)
        self.transitions = transitions
        self.obs = obs


_MOD = None
_CFG = None


def _init(module_name, cfg):
    global _MOD, _CFG
    _MOD = importlib.import_module(module_name)
    _CFG = cfg
    if hasattr(_MOD, "worker_init"):
        _MOD.worker_init()


def _expand(batch):
    out = []
    for cfg_idx, hist in batch:
        try:
            r = _MOD.step(_CFG[cfg_idx], hist)
            out.append((cfg_idx, hist, r.canon, r.failures, r.enabled, r.transitions, r.obs, None))
        except Exception:
            out.append((cfg_idx, hist, None, [], [], 0, None, traceback.format_exc()))
    return out


class BFSStats:
    def __init__(self):
        self.states = 0
        self.transitions = 0
        self.histories = 0
        self.max_depth = 0
        self.failures = []  # (cfg_idx, hist, key, msg)
        self.errors = []
        self.complete = True
        self.depth_reached = {}
        self.obs = set()
        self.frontier_left = 0


def bfs(module_name, configs, max_depth, workers=None, time_cap=None, batch=32):
    """BFS over all configs in parallel.  Returns BFSStats."""
    workers = workers or min(16, os.cpu_count() or 1)
    st = BFSStats()
    t0 = time.time()
    ctx = mp.get_context("fork")
    from mc import runner as _runner

    _runner.scratch_dir()  # before the fork: one scratch directory per check, removed at exit
    with ctx.Pool(workers, initializer=_init, initargs=(module_name, configs)) as pool:
        seen = [set() for _ in configs]
        frontier = [(i, []) for i in range(len(configs))]
        depth = 0
        while frontier:
            if time_cap and time.time() - t0 > time_cap:
                st.complete = False
                st.frontier_left = len(frontier)
                break
            batches = [frontier[i:i + batch] for i in range(0, len(frontier), batch)]
            nxt = []
            for res in pool.imap_unordered(_expand, batches):
                for cfg_idx, hist, canon, failures, enabled, trans, obs, err in res:
                    st.histories += 1
                    if err:
                        st.errors.append(f"cfg={cfg_idx} hist={hist}\n{err}")
                        continue
                    st.transitions += trans
                    for key, msg in failures:
                        if len(st.failures) < 500:
                            st.failures.append((cfg_idx, hist, key, msg))
                    if obs is not None:
                        st.obs.add(obs)
                    if canon in seen[cfg_idx]:
                        continue
                    seen[cfg_idx].add(canon)
                    st.states += 1
                    if len(hist) < (configs[cfg_idx].get('depth', max_depth) if isinstance(configs[cfg_idx], dict) else max_depth) and not failures:
                        for op in enabled:
                            nxt.append((cfg_idx, hist + [op]))
            st.max_depth = depth
            st.depth_reached[depth] = len(frontier)
            depth += 1
            frontier = nxt
    return st


def bfs_report(rep, module, configs, st: BFSStats, max_depth, samples=None):
    seen = {}
    for cfg_idx, hist, key, msg in st.failures:
        seen.setdefault(key, (cfg_idx, hist, msg))
    for key, (cfg_idx, hist, msg) in seen.items():
        ok = 0
        for _ in range(2):
            try:
                r = module.step(configs[cfg_idx], hist)
                if any(k == key for k, _ in r.failures):
                    ok += 1
            except Exception:
                pass
        if ok == 2:
            rep.fail(key, msg, {"config": configs[cfg_idx], "history": hist})
        else:
            rep.unreproducible.append({"key": key, "config": configs[cfg_idx], "history": hist, "reproduced": ok})
    rep.internal_errors.extend(st.errors[:10])
    rep.coverage.update({
        "evaluations": st.histories,
        "states": max(st.states, 1),
        "transitions": max(st.transitions, 1),
        "traces_validated_against_impl": st.histories,
        "distinct_nontrivial": st.states,
        "max_depth": st.max_depth,
        "depth_requested": max_depth,
        "histories_per_depth": st.depth_reached,
        "configs": len(configs),
        "distinct_observations": len(st.obs),
        "exhaustive": bool(st.complete),
        "frontier_left_at_cap": st.frontier_left,
    })
    if samples is not None:
        rep.coverage["samples"] = samples
