"""Model-checking machinery for alpha-unito/streamflow (see /verif/DESIGN.md)."""
